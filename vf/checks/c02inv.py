"""Closure / ordering invariants of an Api returned by specs_to_ir (C02 part 2).

Stated from the property text, evaluated on every accepted compile of every
check (valid models, accepted mutants, repository tests under the contract
plugin)."""


def _walk_types(dt, out, seen):
    """Collect every DataType object reachable from dt."""
    from stone.ir import data_types as D
    if id(dt) in seen or dt is None:
        return
    seen.add(id(dt))
    out.append(dt)
    if isinstance(dt, (D.Nullable, D.List)):
        _walk_types(dt.data_type, out, seen)
    elif isinstance(dt, D.Map):
        _walk_types(dt.key_data_type, out, seen)
        _walk_types(dt.value_data_type, out, seen)
    elif isinstance(dt, D.Alias):
        _walk_types(dt.data_type, out, seen)
    elif isinstance(dt, D.UserDefined):
        if dt.fields is not None:
            for f in dt.fields:
                _walk_types(f.data_type, out, seen)
        _walk_types(dt.parent_type, out, seen)
        if isinstance(dt, D.Struct) and not dt._is_forward_ref and dt.has_enumerated_subtypes():
            for sf in dt.get_enumerated_subtypes():
                _walk_types(sf.data_type, out, seen)


def check_api_invariants(api, filtered=False):
    from stone.ir import data_types as D
    bad = []

    def fail(which, detail):
        bad.append((which, detail))

    names = list(api.namespaces.keys())
    if names != sorted(names):
        fail('namespaces_unsorted', names)
    if 'stone_cfg' in api.namespaces:
        fail('stone_cfg_exposed', names)
    ns_ids = {id(ns) for ns in api.namespaces.values()}
    reach, seen = [], set()
    for ns in api.namespaces.values():
        rk = [(r.name, r.version) for r in ns.routes]
        if rk != sorted(rk):
            fail('routes_unsorted', rk)
        if len(set(rk)) != len(rk):
            fail('route_duplicate', rk)
        for lst, label in ((ns.data_types, 'data_types'), (ns.aliases, 'aliases'),
                           (ns.annotations, 'annotations')):
            nm = [x.name for x in lst]
            if nm != sorted(nm):
                fail(label + '_unsorted', nm)
            if len(set(nm)) != len(nm):
                fail(label + '_duplicate', nm)
        if {k: id(v) for k, v in ns.data_type_by_name.items()} != {d.name: id(d) for d in ns.data_types}:
            fail('data_type_by_name_mismatch', ns.name)
        if {k: id(v) for k, v in ns.alias_by_name.items()} != {d.name: id(d) for d in ns.aliases}:
            fail('alias_by_name_mismatch', ns.name)
        byv = {}
        for name, rbv in ns.routes_by_name.items():
            for v, r in rbv.at_version.items():
                if r.name != name or r.version != v:
                    fail('routes_by_name_key_mismatch', (name, v))
                byv[(name, v)] = id(r)
        if byv != {(r.name, r.version): id(r) for r in ns.routes}:
            fail('routes_by_name_mismatch', ns.name)
        if {k: id(v) for k, v in ns.route_by_name.items()} != \
                {r.name: id(r) for r in ns.routes if r.version == 1}:
            fail('route_by_name_mismatch', ns.name)
        for d in ns.data_types:
            if d.namespace is not ns:
                fail('type_in_wrong_namespace', d.name)
            _walk_types(d, reach, seen)
        for a in ns.aliases:
            if a.namespace is not ns:
                fail('alias_in_wrong_namespace', a.name)
            _walk_types(a, reach, seen)
        for r in ns.routes:
            for dt in (r.arg_data_type, r.result_data_type, r.error_data_type):
                if dt is None:
                    fail('route_slot_unset', r.name)
                _walk_types(dt, reach, seen)
            if r.deprecated is not None and r.deprecated.by is not None:
                by = r.deprecated.by
                rb = ns.routes_by_name.get(by.name)
                if not filtered and (rb is None or rb.at_version.get(by.version) is not by):
                    fail('deprecated_by_unregistered', (r.name, by.name))
    if api.route_schema is not None:
        for f in api.route_schema.all_fields:
            _walk_types(f.data_type, reach, seen)
    for dt in reach:
        if isinstance(dt, D.UserDefined):
            if dt._is_forward_ref:
                fail('forward_ref_reachable', dt.name)
                continue
            if dt.namespace.name == 'stone_cfg':
                continue
            if id(dt.namespace) not in ns_ids:
                fail('type_namespace_unregistered', dt.name)
            elif dt.namespace.data_type_by_name.get(dt.name) is not dt:
                fail('dangling_type' if filtered else 'type_unregistered', dt.name)
            # acyclic inheritance
            cur, hops = dt.parent_type, 0
            while cur is not None and hops < 100:
                if cur is dt:
                    fail('inheritance_cycle', dt.name)
                    break
                cur, hops = cur.parent_type, hops + 1
            if isinstance(dt, D.Struct):
                _check_struct(dt, fail)
            elif isinstance(dt, D.Union):
                _check_union(dt, fail)
        elif isinstance(dt, D.Alias):
            if dt.data_type is None:
                fail('alias_unpopulated', dt.name)
                continue
            if id(dt.namespace) not in ns_ids:
                fail('alias_namespace_unregistered', dt.name)
            elif dt.namespace.alias_by_name.get(dt.name) is not dt:
                fail('alias_unregistered', dt.name)
            cur, hops = dt.data_type, 0
            while isinstance(cur, (D.Alias, D.Nullable)) and hops < 100:
                if cur is dt:
                    fail('alias_cycle', dt.name)
                    break
                cur, hops = cur.data_type, hops + 1
        elif isinstance(dt, D.Nullable):
            inner = dt.data_type
            while isinstance(inner, D.Alias):
                inner = inner.data_type
            if isinstance(inner, (D.Nullable, D.Void)):
                fail('nullable_of_' + type(inner).__name__.lower(), repr(dt))
    for ns in api.namespaces.values():
        try:
            lin = ns.linearize_data_types()
            la = ns.linearize_aliases()
        except Exception as e:      # the orderings are part of the public description
            fail('linearize_raised', '%s: %s' % (ns.name, type(e).__name__))
            continue
        if sorted(map(id, lin)) != sorted(map(id, ns.data_types)):
            fail('linearize_data_types_not_permutation', ns.name)
        pos = {id(d): i for i, d in enumerate(lin)}
        for d in lin:
            p = d.parent_type
            if p is not None and p.namespace is ns and id(p) in pos and pos[id(p)] > pos[id(d)]:
                fail('linearize_parent_after_child', d.name)
        if sorted(map(id, la)) != sorted(map(id, ns.aliases)):
            fail('linearize_aliases_not_permutation', ns.name)
        pos = {id(a): i for i, a in enumerate(la)}
        for a in la:
            pending = [a.data_type]
            while pending:
                t = pending.pop()
                if isinstance(t, D.Alias):
                    if t.namespace is ns and pos.get(id(t), -1) > pos[id(a)]:
                        fail('linearize_alias_target_after', a.name)
                elif isinstance(t, (D.List, D.Nullable)):
                    pending.append(t.data_type)
                elif isinstance(t, D.Map):
                    pending.extend([t.key_data_type, t.value_data_type])
    return bad


def _check_struct(dt, fail):
    from stone.ir import data_types as D
    allf = dt.all_fields
    chain = []
    cur = dt
    while cur is not None:
        chain.append(cur)
        cur = cur.parent_type
    chain.reverse()
    own = [f for s in chain for f in s.fields]
    if sorted(map(id, allf)) != sorted(map(id, own)):
        fail('all_fields_not_permutation', dt.name)
        return

    def optional(f):
        return isinstance(f.data_type, D.Nullable) or f.has_default
    flags = [optional(f) for f in allf]
    if flags != sorted(flags):
        fail('all_fields_required_after_optional', dt.name)
    order = {id(f): i for i, f in enumerate(own)}
    for grp in (True, False):
        idxs = [order[id(f)] for f in allf if optional(f) == grp]
        if idxs != sorted(idxs):
            fail('all_fields_ancestor_order', dt.name)
    names = [f.name for f in allf]
    if len(set(names)) != len(names):
        fail('all_fields_duplicate_name', dt.name)
    if dt.has_enumerated_subtypes():
        subs = dt.get_enumerated_subtypes()
        listed = {id(sf.data_type) for sf in subs}
        for sf in subs:
            if sf.data_type.parent_type is not dt:
                fail('subtype_not_child', sf.name)
        for s in dt.subtypes:
            if id(s) not in listed:
                fail('subtype_unlisted', s.name)


def _check_union(dt, fail):
    allf = dt.all_fields
    names = [f.name for f in allf]
    if len(set(names)) != len(names):
        fail('union_duplicate_tag', dt.name)
    catch = [f for f in allf if f.catch_all]
    if dt.closed and catch:
        fail('closed_union_has_catch_all', dt.name)
    if not dt.closed and len(catch) != 1:
        fail('open_union_catch_all_count_%d' % len(catch), dt.name)
    if not dt.closed and catch and dt.catch_all_field is None and dt.parent_type is None:
        fail('open_union_no_catch_all_field', dt.name)
    if dt.parent_type is not None and dt.closed and not dt.parent_type.closed:
        fail('closed_child_of_open', dt.name)
