"""Fresh-interpreter worker of C09: import one namespace first, then the others, and dump
what the modules expose (dir/getattr/inspect only)."""
import importlib
import inspect
import json
import sys
import traceback


def describe_validator(v, bv, depth=0):
    n = type(v).__name__
    if depth > 40:
        return [n, '...']
    if isinstance(v, bv.Nullable):
        return ['Nullable', describe_validator(v.validator, bv, depth + 1)]
    if isinstance(v, bv.List):
        return ['List', describe_validator(v.item_validator, bv, depth + 1), v.min_items, v.max_items]
    if isinstance(v, bv.Map):
        return ['Map', describe_validator(v.key_validator, bv, depth + 1),
                describe_validator(v.value_validator, bv, depth + 1)]
    if isinstance(v, (bv.Struct, bv.Union)):
        return [n, v.definition.__module__.split('.')[-1], v.definition.__name__]
    if isinstance(v, bv.Integer):
        return [n, v.minimum, v.maximum]
    if isinstance(v, bv.Real):
        return [n, v.minimum, v.maximum]
    if isinstance(v, bv.String):
        return [n, v.min_length, v.max_length, v.pattern]
    if isinstance(v, bv.Timestamp):
        return [n, v.format]
    return [n]


def main():
    root, pkgname, first = sys.argv[1:4]
    others = sys.argv[4:]
    sys.path.insert(0, root)
    from vf import common
    common.use_repo()
    out = {'import_error': None, 'modules': {}}
    mods = {}
    try:
        for ns in [first] + others:
            mods[ns] = importlib.import_module('%s.%s' % (pkgname, ns))
    except BaseException as e:
        out['import_error'] = {'ns': ns, 'exc': type(e).__name__, 'msg': str(e)[:300],
                               'tb': traceback.format_exc()[-600:]}
        print(json.dumps(out))
        return
    from stone.backends.python_rsrc import stone_base as bb, stone_validators as bv
    for ns, mod in mods.items():
        md = {'classes': {}, 'validators': {}, 'routes': {}, 'names': []}
        for name in dir(mod):
            if name.startswith('__'):
                continue
            obj = getattr(mod, name)
            md['names'].append(name)
            if inspect.isclass(obj):
                md.setdefault('class_bindings', {})[name] = '%s.%s' % (obj.__module__.split('.')[-1],
                                                                        obj.__name__)
            if inspect.isclass(obj) and obj.__module__ == mod.__name__:
                cd = {'bases': ['%s.%s' % (b.__module__.split('.')[-1], b.__name__) for b in obj.__bases__],
                      'kind': 'struct' if issubclass(obj, bb.Struct) else
                      ('union' if issubclass(obj, bb.Union) else
                       ('annotation_type' if issubclass(obj, bb.AnnotationType) else 'other'))}
                try:
                    cd['init'] = [p for p in inspect.signature(obj.__init__).parameters][1:]
                except (TypeError, ValueError):
                    cd['init'] = None
                attrs = {}
                for an in dir(obj):
                    if an.startswith('__'):
                        continue
                    try:
                        raw = inspect.getattr_static(obj, an)
                    except AttributeError:
                        continue
                    if isinstance(raw, bb.Attribute):
                        attrs[an] = {'kind': 'attribute', 'nullable': raw.nullable,
                                     'user_defined': raw.user_defined,
                                     'validator': describe_validator(raw.validator, bv)
                                     if raw.validator is not None else None,
                                     'has_default': raw.default is not bb.NO_DEFAULT,
                                     'default': (['union', type(raw.default).__name__, raw.default._tag]
                                                 if isinstance(raw.default, bb.Union) else
                                                 [type(raw.default).__name__])}
                    elif isinstance(raw, classmethod):
                        attrs[an] = {'kind': 'classmethod'}
                    elif inspect.isfunction(raw):
                        attrs[an] = {'kind': 'method'}
                    elif isinstance(raw, bb.Union):
                        attrs[an] = {'kind': 'union_instance', 'tag': raw._tag,
                                     'class': type(raw).__name__}
                cd['attrs'] = attrs
                if cd['kind'] == 'struct':
                    # exercise the attributes on an instance built without arguments:
                    # readable (value, or the documented "missing required field"),
                    # writable (the field's own default is a valid value), deletable
                    ex = {}
                    try:
                        inst = obj()
                    except Exception as e:
                        ex = {'__init__': '%s: %s' % (type(e).__name__, str(e)[:120])}
                        inst = None
                    if inst is not None:
                        for an, a in attrs.items():
                            if a['kind'] != 'attribute':
                                continue
                            raw = inspect.getattr_static(obj, an)

                            def read():
                                try:
                                    getattr(inst, an)
                                    return 'value'
                                except AttributeError as e:
                                    return 'missing_required' if str(e).startswith('missing required field') \
                                        else 'AttributeError: ' + str(e)[:100]
                                except Exception as e:
                                    return '%s: %s' % (type(e).__name__, str(e)[:100])
                            r = {'read': read()}
                            if raw.default is not bb.NO_DEFAULT:
                                try:
                                    setattr(inst, an, raw.default)
                                    r['write_default'] = 'ok'
                                except Exception as e:
                                    r['write_default'] = '%s: %s' % (type(e).__name__, str(e)[:100])
                            try:
                                delattr(inst, an)
                                r['delete'] = 'ok'
                            except Exception as e:
                                r['delete'] = '%s: %s' % (type(e).__name__, str(e)[:100])
                            r['read_after_delete'] = read()
                            ex[an] = r
                    cd['exercise'] = ex
                if cd['kind'] == 'union':
                    cd['catch_all'] = getattr(obj, '_catch_all', None)
                md['classes'][name] = cd
            elif name.endswith('_validator') and isinstance(obj, bv.Validator):
                md['validators'][name] = describe_validator(obj, bv)
            elif inspect.isclass(obj):
                md.setdefault('class_aliases', {})[name] = '%s.%s' % (obj.__module__.split('.')[-1],
                                                                      obj.__name__)
        routes = getattr(mod, 'ROUTES', None)
        if isinstance(routes, dict):
            for key, r in routes.items():
                # a route object that lacks one of its documented fields is a finding for the parent to
                # report, not a reason for this observer to crash
                def field(attr, conv=lambda x: x):
                    try:
                        return conv(getattr(r, attr))
                    except Exception as e:
                        return '<unreadable: %s>' % type(e).__name__
                md['routes'][key] = {
                    'name': field('name'), 'version': field('version'), 'deprecated': field('deprecated'),
                    'arg': field('arg_type', lambda v: describe_validator(v, bv)),
                    'result': field('result_type', lambda v: describe_validator(v, bv)),
                    'error': field('error_type', lambda v: describe_validator(v, bv)),
                    'attrs': field('attrs', lambda a: {k: repr(v) for k, v in a.items()}),
                    'is_module_attr': any(getattr(mod, n, None) is r for n in dir(mod)),
                }
        else:
            md['routes'] = None
        out['modules'][ns] = md
    print(json.dumps(out))


if __name__ == '__main__':
    main()
