"""C05 - encoded JSON is exactly the wire format of the serializer specification."""
from . import c04

PROPERTY = 'C05'
LEVEL = 'exploration'
RULE = ('the C04 workload (valid boundary-biased values of every struct, union, alias and route slot type of '
        'generated specs, built through the documented API); each json_compat_obj_encode / json_encode '
        'result is compared (kind-strict JSON comparison, key order and number formatting ignored) with an '
        'independent reference encoder written from docs/json_serializer.rst and driven by the model, and '
        'must be built from JSON-compatible objects only. distinct = distinct (document rule, top-level '
        'position, entry point) triples')
ASSUMPTIONS = ['reference encoder vf/ref/wire.py is trusted; unspecified values (root instances, subclass '
               'slicing) are skipped and counted']
REQUIRED_COUNTERS = ['encodings_compared']
time_limit = c04.time_limit
budget = c04.budget


def run_shard(tier, seed, idx, n, res, tmp):
    c04.run_shard(tier, seed, idx, n, res, tmp, judge='wire', prop=PROPERTY)
