"""C08 - generated classes accept a value exactly when it satisfies the declared type."""
import datetime
import math
import random

from .. import common
from ..gen import model as gm, render as gr
from ..gen.model import (Model, Namespace, StructDef, UnionDef, AliasDef, FieldDef, T, prim, ref,
                         PRIM_INTS, PRIM_FLOATS, PATTERNS, TS_FORMATS, F32)
from ..gen.values import ValueGen, Uninhabited, SV, UV
from ..mon import pyrt
from ..ref import typepred
from . import rtwork

PROPERTY = 'C08'
LEVEL = 'exploration'
RULE = ('(1) exhaustive: every primitive type x parameter combinations at the type extremes (none/min/max/both/'
        'equal, patterns, formats) embedded as struct field, nullable field, list item (with and without item '
        'bounds), map value, alias target, nested List(Map(String, T?)) and union member, x values at bound-1, '
        'bound, bound+1, inherent extremes +-1 and one value of every other Python kind; (2) random composite '
        'types of generated specs x valid values and one-step-invalid neighbours (wrong class, too many/few '
        'items, element out of bounds, non-string key). Oracle: reference predicate on the model type; '
        'accepted values must read back equal up to int->float and tuple->list; refusal must be '
        'ValidationError. distinct = distinct (type, parameter shape, embedding, value class, verdict) cells')
RULE += ' ' + 'Neighbours also include non-list sequences and non-dict mappings that hold valid items, tuples of several lengths and every other Python kind in list / map / struct / union positions.'
ASSUMPTIONS = ['unspecified and not judged: bool where a number is expected, bytearray/memoryview for Bytes, '
               'subclass instance in a plain-struct position, instance of an enumerated-subtype root']
REQUIRED_COUNTERS = ['assignments', 'judged_in', 'judged_out']
MAX_WORKERS = 16


def time_limit(tier):
    return common.default_limit(tier)


def budget(tier):
    return dict(random_specs=240, values=6) if tier == 'quick' else dict(random_specs=2000, values=10)


def param_types():
    out = []
    for n, (lo, hi) in PRIM_INTS.items():
        mid = 2 if lo == 0 else -3
        for mn, mx, tag in [(None, None, 'none'), (lo, None, 'min_extreme'), (None, hi, 'max_extreme'),
                            (lo, hi, 'both_extreme'), (mid, None, 'min'), (None, 100, 'max'),
                            (5, 5, 'equal'), (mid, 7, 'both'), (hi, hi, 'equal_extreme')]:
            out.append((prim(n, min_value=mn, max_value=mx), tag))
    for n in PRIM_FLOATS:
        combos = [(None, None, 'none'), (0.5, None, 'min'), (None, 2.25, 'max'), (-1.5, 2.25, 'both'),
                  (1.0, 1.0, 'equal'), (0, 10, 'int_bounds')]
        if n == 'Float32':
            combos += [(-F32, F32, 'both_extreme'), (F32, None, 'min_extreme')]
        for mn, mx, tag in combos:
            out.append((prim(n, min_value=mn, max_value=mx), tag))
    for mn, mx, tag in [(None, None, 'none'), (0, None, 'min0'), (1, None, 'min'), (None, 1, 'max1'),
                        (None, 3, 'max'), (2, 3, 'both'), (2, 2, 'equal')]:
        out.append((prim('String', min_length=mn, max_length=mx), tag))
    for p in PATTERNS:
        out.append((prim('String', pattern=p[0]), 'pattern'))
    out.append((prim('String', pattern='[a-z]+', min_length=2, max_length=3), 'pattern+length'))
    for f in TS_FORMATS:
        out.append((prim('Timestamp', format=f), 'format'))
    out.append((prim('Bytes'), 'none'))
    out.append((prim('Boolean'), 'none'))
    return out


def build_exhaustive_model(chunk, nchunks):
    m = Model()
    ns = Namespace(name='prims', docs=[], imports=[], defs=[])
    m.namespaces.append(ns)
    sites = []   # (struct name, field name, embedding, prim type, tag)
    pts = param_types()
    for i, (pt, tag) in enumerate(pts):
        if i % nchunks != chunk:
            continue
        an = 'Al%d' % i
        ns.defs.append(AliasDef(name=an, ns='prims', doc=None, type=pt, anns=[]))
        lst = lambda it, mn=None, mx=None: T('list', args={'item': it, 'min_items': mn, 'max_items': mx})
        mp = lambda v: T('map', args={'key': prim('String'), 'value': v})
        fields = [
            ('direct', pt, 'field'),
            ('opt', pt.copy(nullable=True), 'nullable_field'),
            ('lst', lst(pt), 'list_item'),
            ('lstb', lst(pt, 1, 2), 'bounded_list_item'),
            ('mp', mp(pt), 'map_value'),
            ('via', ref('prims', an), 'alias_target'),
            ('nest', lst(mp(pt.copy(nullable=True))), 'nested'),
        ]
        sn = 'St%d' % i
        ns.defs.append(StructDef(name=sn, ns='prims', doc=None, parent=None,
                                 fields=[FieldDef(name=f, type=t.copy(nullable=True) if not t.nullable else t,
                                                  default=None, doc=None, anns=[])
                                         for f, t, _ in fields],
                                 patch_fields=[], subtypes=None, examples=[]))
        un = 'Un%d' % i
        ns.defs.append(UnionDef(name=un, ns='prims', doc=None, closed=True, parent=None,
                                fields=[FieldDef(name='t', type=pt, default=None, doc=None, anns=[]),
                                        FieldDef(name='tn', type=pt.copy(nullable=True), default=None,
                                                 doc=None, anns=[])],
                                patch_fields=[], examples=[]))
        for f, t, emb in fields:
            sites.append((sn, f, emb, pt, tag, t))
        sites.append((un, 't', 'union_member', pt, tag, pt))
        sites.append((un, 'tn', 'nullable_union_member', pt, tag, pt.copy(nullable=True)))
    return m, sites


class Obj:
    pass


OTHER_KINDS = [None, True, 0, 1, 1.5, float('nan'), float('inf'), -float('inf'), 'str', '', b'bytes',
               datetime.datetime(2020, 1, 2, 3, 4, 5), datetime.date(2020, 1, 2),
               datetime.datetime(2020, 1, 2, 3, 4, 5, tzinfo=datetime.timezone(datetime.timedelta(hours=2))),
               datetime.datetime(2020, 1, 2, 3, 4, 5, tzinfo=datetime.timezone.utc),
               [], (), {}, [1], (1,), {'a': 1}, bytearray(b'x'), 2 ** 70, -2 ** 70,
               # tuples of several lengths: a refusal formatted with a bare `%` breaks on exactly these
               (1, 2), ('a', 'b', 'c'), (('k', 1), ('l', 2)), ((),), set(), frozenset([1]), range(2)]


def candidate_values(pt):
    vals = list(OTHER_KINDS) + [Obj()]
    n = pt.name
    if n in PRIM_INTS:
        lo, hi = PRIM_INTS[n]
        mn, mx = pt.args.get('min_value', lo), pt.args.get('max_value', hi)
        vals += [mn - 1, mn, mn + 1, mx - 1, mx, mx + 1, lo - 1, lo, hi, hi + 1, float(mn), 5.0]
    elif n in PRIM_FLOATS:
        lo, hi = PRIM_FLOATS[n]
        for bnd in (pt.args.get('min_value'), pt.args.get('max_value'), lo, hi):
            if bnd is not None:
                b = float(bnd)
                vals += [b, math.nextafter(b, math.inf), math.nextafter(b, -math.inf)]
                if b == int(b) and abs(b) < 2 ** 53:
                    vals += [int(b), int(b) - 1, int(b) + 1]
        vals += [0.0, -0.0, 1e308, -1e308, 5e-324, 3, 10 ** 400]
    elif n == 'String':
        mn, mx = pt.args.get('min_length'), pt.args.get('max_length')
        for L in {0, 1, (mn or 0), max(0, (mn or 0) - 1), (mn or 0) + 1, (mx or 3), (mx or 3) + 1,
                  max(0, (mx or 3) - 1)}:
            vals += ['x' * L, 'é' * L, 'ab' * (L // 2) + 'a' * (L % 2)]
        pat = pt.args.get('pattern')
        if pat:
            for p in PATTERNS:
                if p[0] == pat:
                    vals += p[1] + p[2] + p[3]
            vals += ['ab', 'abc', 'abcd', 'a\n', 'ab\n']
        vals += ['\ud800', '😀']
    elif n == 'Bytes':
        vals += [b'', b'\x00\xff', memoryview(b'mv')]
    elif n == 'Timestamp':
        vals += [datetime.datetime(1, 1, 1), datetime.datetime(9999, 12, 31, 23, 59, 59, 999999),
                 '2020-01-01', 1577836800]
    return vals


def value_class(v):
    if isinstance(v, bool):
        return 'bool'
    if isinstance(v, int):
        return 'int'
    if isinstance(v, float):
        return 'nan_inf' if (math.isnan(v) or math.isinf(v)) else 'float'
    if isinstance(v, datetime.datetime):
        return 'datetime_aware' if v.tzinfo else 'datetime'
    return type(v).__name__


def norm_eq(expected, got):
    """Equality up to the documented normalisations (int->float, tuple->list)."""
    if isinstance(expected, tuple):
        expected = list(expected)
    if isinstance(expected, list) and isinstance(got, list):
        return len(expected) == len(got) and all(norm_eq(a, b) for a, b in zip(expected, got))
    if isinstance(expected, dict) and isinstance(got, dict):
        return set(expected) == set(got) and all(norm_eq(expected[k], got[k]) for k in expected)
    if isinstance(expected, bool) or isinstance(got, bool):
        return type(expected) is type(got) and expected == got
    if isinstance(expected, (int, float)) and isinstance(got, (int, float)):
        return float(expected) == float(got) if abs(expected) < 2 ** 1000 else expected == got
    if isinstance(expected, (bytes, bytearray, memoryview)) and isinstance(got, (bytes, bytearray, memoryview)):
        return bytes(expected) == bytes(got)
    return type(expected) is type(got) and expected == got


def wrap(emb, v):
    if emb in ('list_item', 'bounded_list_item'):
        return [v]
    if emb == 'map_value':
        return {'k': v}
    if emb == 'nested':
        return [{'k': v}]
    return v


def judge(res, bv, m, t_pos, action, value, replay, cell):
    """action() performs the assignment and returns what reads back."""
    expected = typepred.verdict(m, t_pos, value)
    res.evaluations += 1
    res.count('assignments')
    try:
        got = action()
        outcome = 'accepted'
    except bv.ValidationError:
        outcome = 'refused'
    except Exception as e:
        res.violation({'kind': 'refused_with_other_exception', 'exc': type(e).__name__,
                       'site': '%s:%s' % common.exc_site(e)},
                      {'error': repr(e)[:200], 'cell': cell, 'value': repr(value)[:120]}, replay)
        return
    res.see(*(cell + (expected, outcome)))
    if expected == typepred.IN:
        res.count('judged_in')
        if outcome == 'refused':
            res.violation({'kind': 'valid_value_refused', 'cell': '|'.join(cell[:3])},
                          {'value': repr(value)[:160], 'cell': cell}, replay)
        elif not norm_eq(value, got) and not isinstance(value, (SV, UV)):
            res.violation({'kind': 'reads_back_different', 'cell': '|'.join(cell[:3])},
                          {'assigned': repr(value)[:120], 'read': repr(got)[:120], 'cell': cell}, replay)
    elif expected == typepred.OUT:
        res.count('judged_out')
        if outcome == 'accepted':
            res.violation({'kind': 'invalid_value_accepted', 'cell': '|'.join(cell[:3]),
                           'value_class': cell[-1]},
                          {'value': repr(value)[:160], 'cell': cell}, replay)
    else:
        res.skip('unspecified:' + cell[-1])


def run_shard(tier, seed, idx, n, res, tmp):
    from stone.backends.python_rsrc import stone_serializers as ss, stone_validators as bv
    b = budget(tier)
    # (1) exhaustive primitive embeddings: chunk idx of n
    m, sites = build_exhaustive_model(idx, n)
    files = gr.render(m, None)
    pkg = pyrt.Pkg(files, tmp)
    try:
        for owner, fname, emb, pt, tag, t_pos in sites:
            cls = pkg.cls('prims', owner)
            for v in candidate_values(pt):
                wv = wrap(emb, v)
                cell = (pt.name, tag, emb, value_class(v))
                replay = {'exhaustive': True, 'type': repr(pt), 'embedding': emb, 'value': repr(v)[:100]}
                if emb.endswith('union_member'):
                    def action(cls=cls, fname=fname, wv=wv):
                        u = getattr(cls, fname)(wv)
                        return getattr(u, 'get_' + fname)()
                else:
                    def action(cls=cls, fname=fname, wv=wv):
                        o = cls()
                        setattr(o, fname, wv)
                        return getattr(o, fname)
                tp = t_pos if emb.endswith('union_member') else \
                    [f for f in m.lookup('prims', owner).fields if f.name == fname][0].type
                judge(res, bv, m, tp, action, wv, replay, cell)
            # decoding a primitive through its alias validator
            val = pkg.validator('prims', 'Al' + owner[2:]) if owner.startswith('St') and emb == 'field' else None
            if val is not None:
                for v in candidate_values(pt):
                    if isinstance(v, (str, int, float, bool, type(None))) and pt.name not in ('Bytes', 'Timestamp'):
                        cell = (pt.name, tag, 'primitive_decode', value_class(v))

                        def action(val=val, v=v):
                            return ss.json_compat_obj_decode(val, v)
                        judge(res, bv, m, pt, action, v, {'exhaustive': True, 'type': repr(pt),
                                                          'decode': repr(v)[:80]}, cell)
    finally:
        pkg.close()
    # (2) random composite types: valid values and one-step-invalid neighbours
    for ci in common.case_range(idx, b['random_specs'], n, res):
        try:
            case = rtwork.SpecCase(PROPERTY, seed, ci, tmp, rtwork.rt_profile())
            case.pkg.mod(case.m.namespaces[0].name)
        except Exception as e:
            res.skip('package_not_usable:%s' % type(e).__name__)
            continue
        m, pkg, rnd = case.m, case.pkg, case.rnd
        try:
            vg = ValueGen(m, rnd, max_depth=3)
            for d in m.defs('struct'):
                cls = pkg.cls(d.ns, d.name)
                for f in m.own_fields(d):
                    for vi in range(b['values']):
                        try:
                            av = vg.value(f.type, avoid_null=(vi % 4 != 3))
                        except Uninhabited:
                            break
                        shape = rtwork.shape_path(m, f.type, av).split('>')
                        cands = [('valid', av)] + neighbours(m, f.type, av, rnd, pkg)
                        for nm, cav in cands:
                            try:
                                pv = pyrt.build(pkg, m, cav) if not isinstance(cav, Raw) else cav.v
                            except Exception:
                                res.skip('neighbour_not_buildable')
                                continue
                            cell = ('composite', shape[0], nm, 'av')

                            def action(cls=cls, f=f, pv=pv):
                                o = cls()
                                setattr(o, f.name, pv)
                                return getattr(o, f.name)
                            tv = cav if not isinstance(cav, Raw) else cav.av
                            expected_value = tv
                            judge_composite(res, bv, m, f.type, action, tv, cell,
                                            {'case': ci, 'field': '%s.%s' % (d.name, f.name), 'neighbour': nm,
                                             'files': case.files})
        finally:
            case.close()


NOT_AV = Obj()


class Raw:
    """A python value that is not an AV (e.g. object(), instance of an unrelated class)."""

    def __init__(self, v, av):
        self.v, self.av = v, av


def judge_composite(res, bv, m, t, action, av, cell, replay):
    expected = typepred.verdict(m, t, av) if av is not NOT_AV else typepred.OUT
    res.evaluations += 1
    res.count('assignments')
    try:
        action()
        outcome = 'accepted'
    except bv.ValidationError:
        outcome = 'refused'
    except Exception as e:
        res.violation({'kind': 'refused_with_other_exception', 'exc': type(e).__name__,
                       'site': '%s:%s' % common.exc_site(e)}, {'error': repr(e)[:200], 'cell': cell}, replay)
        return
    res.see(*(cell + (expected, outcome)))
    if expected == typepred.IN:
        res.count('judged_in')
        if outcome == 'refused':
            res.violation({'kind': 'valid_value_refused', 'cell': '|'.join(cell[:3])},
                          {'value': repr(av)[:200]}, replay)
    elif expected == typepred.OUT:
        res.count('judged_out')
        if outcome == 'accepted':
            res.violation({'kind': 'invalid_value_accepted', 'cell': '|'.join(cell[:3])},
                          {'value': repr(av)[:200]}, replay)
    else:
        res.skip('unspecified:' + cell[2])


def _plain_list(x):
    return isinstance(x, list) and all(isinstance(y, (int, float, str, bool, bytes)) for y in x)


def seq_impostors(m, list_rt, items):
    """Python values that hold acceptable items for the list type but are not lists or tuples: only the
    container kind is wrong.  Items must be plain scalars (so that no AV has to be built)."""
    import collections
    out = []
    it = list_rt.args['item']
    irt, _ = m.resolve_alias(it)
    lo = list_rt.args.get('min_items') or 0
    hi = list_rt.args.get('max_items')
    if items and all(isinstance(x, (int, float, str, bool, bytes)) for x in items):
        out.append(('deque_for_list', collections.deque(items)))
        out.append(('iterator_for_list', iter(list(items))))
        out.append(('dict_keyed_by_items_for_list', dict.fromkeys(items)))
        try:
            if len(set(items)) == len(items):
                out.append(('frozenset_for_list', frozenset(items)))
        except TypeError:
            pass
    if irt.kind == 'prim' and irt.name in PRIM_INTS:
        n = max(lo, 1) if hi is None else max(lo, min(hi, 2))
        cands = [x for x in range(0, 256) if typepred.verdict(m, it, x) == typepred.IN][:max(n, 1)]
        if len(cands) >= n and n >= 1:
            out.append(('bytes_for_list', bytes(cands[:n])))
            out.append(('bytearray_for_list', bytearray(cands[:n])))
            out.append(('memoryview_for_list', memoryview(bytes(cands[:n]))))
        for start in (0, 1, -1):
            r = range(start, start + n)
            if n and all(typepred.verdict(m, it, x) == typepred.IN for x in r):
                out.append(('range_for_list', r))
                break
    if irt.kind == 'prim' and irt.name == 'String':
        n = max(lo, 1) if hi is None else max(lo, min(hi, 2))
        for ch in 'a0Z-':
            if typepred.verdict(m, it, ch) == typepred.IN:
                out.append(('str_for_list', ch * n))
                break
    return out


def neighbours(m, t, av, rnd, pkg):
    """One-step-invalid (or differently-valid) neighbours of a valid AV at type t."""
    out = []
    rt, nullable = m.resolve_alias(t)
    if av is None:
        return out
    if rt.kind == 'list' and isinstance(av, list):
        if rt.args.get('max_items') is not None and av:
            out.append(('too_many_items', av + [av[0]] * (rt.args['max_items'] + 1 - len(av))))
        if rt.args.get('min_items'):
            out.append(('too_few_items', av[:rt.args['min_items'] - 1]))
        it = rt.args['item']
        irt, _ = m.resolve_alias(it)
        if irt.kind == 'prim' and irt.name in PRIM_INTS and av:
            bad = irt.args.get('max_value', PRIM_INTS[irt.name][1]) + 1
            out.append(('element_out_of_bounds', av[:-1] + [bad]))
        if av:
            out.append(('element_wrong_kind', av[:-1] + [Obj()]))
            out.append(('tuple_for_list', tuple(av)))
        out.append(('scalar_for_list', 5))
        out.append(('dict_for_list', Raw({}, NOT_AV)))
        out.append(('set_for_list', Raw(set(), NOT_AV)))
        for nm, pv in seq_impostors(m, rt, av):
            out.append((nm, Raw(pv, NOT_AV)))
        # a list nested one level down (list of lists) given as something that is not a list
        if irt.kind == 'list' and av and all(_plain_list(x) for x in av):
            for nm, pv in seq_impostors(m, irt, av[0]):
                out.append(('nested_' + nm, Raw([pv] + [list(x) for x in av[1:]], NOT_AV)))
    elif rt.kind == 'map' and isinstance(av, dict):
        out.append(('non_string_key', dict(av, **{}) | {5: next(iter(av.values()))} if av else {5: None}))
        out.append(('list_for_map', []))
        for nm, pv in (('empty_tuple_for_map', ()), ('pair_tuple_for_map', tuple(av.items())[:2] or (('k', 1),)),
                       ('tuple3_for_map', ('a', 'b', 'c')), ('one_tuple_for_map', ('a',)), ('set_for_map', set()),
                       ('str_for_map', 'map'), ('int_for_map', 7)):
            out.append((nm, Raw(pv, NOT_AV)))
        vrt, _ = m.resolve_alias(rt.args['value'])
        if vrt.kind == 'list' and all(x is None or _plain_list(x) for x in av.values()):
            for k0, v0 in av.items():
                if isinstance(v0, list):
                    for nm, pv in seq_impostors(m, vrt, v0):
                        out.append(('map_value_' + nm, Raw({**{k: (list(x) if isinstance(x, list) else x)
                                                               for k, x in av.items()}, k0: pv}, NOT_AV)))
                    break
        if all(isinstance(x, (int, float, str, bool, bytes)) or x is None for x in av.values()):
            import collections
            import types
            out.append(('mappingproxy_for_map', Raw(types.MappingProxyType(dict(av)), NOT_AV)))
            out.append(('userdict_for_map', Raw(collections.UserDict(av), NOT_AV)))
            out.append(('item_pairs_for_map', Raw(list(av.items()), NOT_AV)))
    elif rt.kind == 'ref':
        d = m.lookup(rt.ns, rt.name)
        others = [x for x in m.defs() if x.kind in ('struct', 'union') and x is not d]
        if d.kind == 'struct' and isinstance(av, SV):
            for x in others[:6]:
                rel = None
                if x.kind == 'struct':
                    if (d.ns, d.name) in [(a.ns, a.name) for a in m.ancestors(x)]:
                        rel = 'descendant_class'
                    elif (x.ns, x.name) in [(a.ns, a.name) for a in m.ancestors(d)]:
                        rel = 'ancestor_class'
                    else:
                        rel = 'unrelated_struct'
                else:
                    rel = 'union_for_struct'
                try:
                    vg = ValueGen(m, rnd, max_depth=2)
                    oav = vg.struct_value(x, 1, exact=True) if x.kind == 'struct' else vg.union_value(x, 1)
                    out.append((rel, oav))
                except Uninhabited:
                    pass
            out.append(('object_for_struct', Raw(Obj(), NOT_AV)))
            out.append(('dict_for_struct', Raw({}, NOT_AV)))
            for nm, pv in (('empty_tuple_for_struct', ()), ('pair_tuple_for_struct', (1, 2)),
                           ('str_for_struct', 's'), ('list_for_struct', [1])):
                out.append((nm, Raw(pv, NOT_AV)))
        elif d.kind == 'union' and isinstance(av, UV):
            for x in others[:6]:
                if x.kind == 'union':
                    if (x.ns, x.name) in [(a.ns, a.name) for a in m.ancestors(d)]:
                        rel = 'parent_union'
                    elif (d.ns, d.name) in [(a.ns, a.name) for a in m.ancestors(x)]:
                        rel = 'child_union'
                    else:
                        rel = 'unrelated_union'
                    try:
                        oav = ValueGen(m, rnd, max_depth=2).union_value(x, 1)
                    except Uninhabited:
                        continue
                    # a void tag is a ready instance of the class that declares it
                    # (possibly an ancestor): judge the class the value really has
                    actual = x
                    if oav.value is None:
                        for u in m.chain(x):
                            names = [f.name for f in m.own_fields(u)]
                            if m.union_declares_other(u):
                                names.append('other')
                            if oav.tag in names:
                                actual = u
                                break
                    oav = UV(actual.ns, actual.name, oav.tag, oav.value)
                    anc_d = [(a.ns, a.name) for a in m.ancestors(d)]
                    if (actual.ns, actual.name) == (d.ns, d.name):
                        rel = 'same_union'
                    elif (actual.ns, actual.name) in anc_d:
                        rel = 'parent_union'
                    elif (d.ns, d.name) in [(a.ns, a.name) for a in m.ancestors(actual)]:
                        rel = 'child_union'
                    else:
                        rel = 'unrelated_union'
                    out.append((rel, oav))
            out.append(('object_for_union', Raw(object(), NOT_AV)))
            for nm, pv in (('empty_tuple_for_union', ()), ('pair_tuple_for_union', (av.tag, None)),
                           ('dict_for_union', {'.tag': av.tag})):
                out.append((nm, Raw(pv, NOT_AV)))
            out.append(('string_for_union', Raw(av.tag, NOT_AV)))
    return out
