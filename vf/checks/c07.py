"""C07 - backwards-compatible spec changes keep old and new peers interoperable."""
import random

from .. import common
from ..gen import model as gm, render as gr, evolve
from ..gen.values import ValueGen, Uninhabited, SV, UV
from ..mon import pyrt
from ..ref import wire
from . import rtwork, c04

PROPERTY = 'C07'
LEVEL = 'exploration'
RULE = ('pairs (A, B): A a generated spec, B = A after 1-4 edits the evolution guide lists as backwards '
        'compatible (add nullable/defaulted field, add tag to an open union, Void tag -> typed tag, add subtype '
        'under a catch-all struct, add route, rename type, introduce/inline alias) at random sites including '
        'nested ones; both versions are generated and imported side by side. B-values that exercise the '
        'edited sites are encoded under B and decoded under A leniently (must equal the A-view: unknown fields '
        'dropped, unknown tags -> other, unknown subtypes -> base struct, new payloads ignored) and strictly '
        '(must be refused exactly when the message contains something A does not know); A-values are encoded '
        'under A and decoded under B (both modes) to the same value with new fields at their defaults. '
        'distinct = distinct (edit kind, nesting position, direction, mode, outcome) tuples')
ASSUMPTIONS = ['A->B skips values selecting a tag that B changed from Void to a non-nullable type (not promised)',
               'the A-view projection is computed on the models, not on generated tables']
REQUIRED_COUNTERS = ['b_to_a_decodes', 'a_to_b_decodes', 'messages_with_unknown']


def time_limit(tier):
    return common.default_limit(tier)


def budget(tier):
    return dict(pairs=160, values=5) if tier == 'quick' else dict(pairs=2500, values=8)


def project(evo, tB, av):
    """(A-view AV, message-contains-something-unknown-to-A)."""
    b = evo.b
    if av is None or tB is None:
        return None, False
    if tB.kind == 'prim':
        return av, False
    if tB.kind == 'list':
        rs = [project(evo, tB.args['item'], x) for x in av]
        return [r[0] for r in rs], any(r[1] for r in rs)
    if tB.kind == 'map':
        rs = {k: project(evo, tB.args['value'], v) for k, v in av.items()}
        return {k: r[0] for k, r in rs.items()}, any(r[1] for r in rs.values())
    d = b.lookup(tB.ns, tB.name)
    if d.kind == 'alias':
        return project(evo, d.type, av)
    if isinstance(av, SV):
        vd = b.lookup(av.ns, av.name)
        unknown = False
        target = vd
        if (av.ns, av.name) in evo.new_types:
            target = b.lookup(*vd.parent)      # unknown subtype -> the base struct
            unknown = True
        keep = {f.name for f in b.struct_all_fields(target)}
        fields = {}
        for f in b.struct_all_fields(vd):
            v = av.fields.get(f.name)
            owner = [s for s in b.chain(vd) if any(x is f for x in b.own_fields(s))][0]
            is_new = (owner.ns, owner.name, f.name) in evo.new_fields
            if f.name not in keep or is_new:
                if v is not None:
                    unknown = True
                continue
            if f.name in av.fields:
                pv, u = project(evo, f.type, v)
                fields[f.name] = pv
                unknown = unknown or u
        return SV(target.ns, evo.a_name(target.ns, target.name), fields), unknown
    vd = b.lookup(av.ns, av.name)
    f = [x for x in b.union_all_fields(vd) if x.name == av.tag][0]
    owner = None
    for u in b.chain(vd):
        if any(x is f for x in b.own_fields(u)):
            owner = u
    aname = evo.a_name(vd.ns, vd.name)
    key = (owner.ns, owner.name, av.tag) if owner is not None else None
    if key in evo.new_tags:
        return UV(av.ns, aname, 'other', None), True
    if key in evo.retyped_tags:
        present = av.value is not None
        if present:
            tgt = b.target(f.type)
            if tgt is not None and tgt.kind == 'struct' and not tgt.subtypes:
                present = bool(wire.encode(b, f.type, av.value))
        return UV(av.ns, aname, av.tag, None), present
    pv, u = project(evo, f.type, av.value) if f.type is not None else (None, False)
    return UV(av.ns, aname, av.tag, pv), u


def translate_to_b(evo, tA, av):
    """Rename class names of an A-value into B's names; flag values B cannot promise to read."""
    a = evo.a
    if av is None or tA is None:
        return None, False
    if tA.kind == 'prim':
        return av, False
    if tA.kind == 'list':
        rs = [translate_to_b(evo, tA.args['item'], x) for x in av]
        return [r[0] for r in rs], any(r[1] for r in rs)
    if tA.kind == 'map':
        rs = {k: translate_to_b(evo, tA.args['value'], v) for k, v in av.items()}
        return {k: r[0] for k, r in rs.items()}, any(r[1] for r in rs.values())
    d = a.lookup(tA.ns, tA.name)
    if d.kind == 'alias':
        return translate_to_b(evo, d.type, av)
    if isinstance(av, SV):
        vd = a.lookup(av.ns, av.name)
        skip = False
        fields = {}
        for f in a.struct_all_fields(vd):
            if f.name in av.fields:
                pv, s = translate_to_b(evo, f.type, av.fields[f.name])
                fields[f.name] = pv
                skip = skip or s
        return SV(av.ns, evo.b_name(av.ns, av.name), fields), skip
    vd = a.lookup(av.ns, av.name)
    f = [x for x in a.union_all_fields(vd) if x.name == av.tag][0]
    skip = False
    for u in a.chain(vd):
        if any(x is f for x in a.own_fields(u)):
            if evo.retyped_tags.get((u.ns, evo.b_name(u.ns, u.name), av.tag)) == 'required':
                skip = True
    pv, s = translate_to_b(evo, f.type, av.value) if f.type is not None else (None, False)
    return UV(av.ns, evo.b_name(av.ns, av.name), av.tag, pv), skip or s


def positions_ab(evo, pkg_a, pkg_b):
    """Typed positions present in both versions: [(label, tA, tB, validatorA, validatorB)]."""
    out = []
    for d in evo.a.defs():
        if d.kind in ('struct', 'union'):
            bn = evo.b_name(d.ns, d.name)
            out.append(('%s.%s' % (d.ns, d.name), gm.ref(d.ns, d.name), gm.ref(d.ns, bn),
                        pkg_a.validator(d.ns, d.name), pkg_b.validator(d.ns, bn)))
    return out


def run_shard(tier, seed, idx, n, res, tmp):
    from stone.backends.python_rsrc import stone_serializers as ss, stone_validators as bv
    b_ = budget(tier)
    for ci in common.case_range(idx, b_['pairs'], n, res):
        cs = common.case_seed(PROPERTY, seed, ci)
        rnd = random.Random(cs)
        a = gm.generate(cs, rtwork.rt_profile(p_subtypes=0.35, p_union=0.4))
        evo = evolve.Evolution(a, rnd, rnd.randint(1, 4))
        if not evo.applied:
            res.skip('no_edit_applicable')
            continue
        files_a, files_b = gr.render(a, None), gr.render(evo.b, None)
        try:
            pkg_a = pyrt.Pkg(files_a, tmp)
        except Exception as e:
            res.skip('package_A_not_usable:%s' % type(e).__name__)
            continue
        try:
            pkg_b = pyrt.Pkg(files_b, tmp)
        except Exception as e:
            pkg_a.close()
            res.violation({'kind': 'evolved_spec_not_usable', 'exc': type(e).__name__},
                          {'error': repr(e)[:300], 'edits': evo.applied},
                          {'case': ci, 'files_a': files_a, 'files_b': files_b})
            continue
        try:
            try:
                pos = positions_ab(evo, pkg_a, pkg_b)
            except Exception as e:
                res.skip('package_not_importable:%s' % type(e).__name__)
                continue
            edits = sorted({e for e, _ in evo.applied})
            sites = sorted({s for _, s in evo.applied})
            gen_b = evolve.EvoGen(evo, rnd)
            gen_a = ValueGen(a, rnd, max_depth=3)
            for label, tA, tB, vA, vB in pos:
                replay = {'case': ci, 'type': label, 'edits': evo.applied, 'files_a': files_a,
                          'files_b': files_b}
                # ---- B -> A
                for vi in range(b_['values']):
                    try:
                        av = gen_b.value(tB, avoid_null=True)
                    except Uninhabited:
                        break
                    if av is None or c04.excluded(evo.b, tB, av):
                        continue
                    try:
                        msg = ss.json_compat_obj_encode(vB, pyrt.build(pkg_b, evo.b, av))
                    except Exception as e:
                        res.skip('b_value_not_encodable')
                        continue
                    view, unknown = project(evo, tB, av)
                    if unknown:
                        res.count('messages_with_unknown')
                    for strict in (False, True):
                        res.evaluations += 1
                        res.count('b_to_a_decodes')
                        mode = 'strict' if strict else 'lenient'
                        try:
                            got = ss.json_compat_obj_decode(vA, msg, strict=strict)
                            outcome = 'decoded'
                        except bv.ValidationError as e:
                            outcome, err = 'refused', str(e)
                        except Exception as e:
                            res.violation({'kind': 'decode_raised', 'exc': type(e).__name__, 'dir': 'B->A'},
                                          {'error': repr(e)[:200], 'msg': msg}, replay)
                            continue
                        cell_edits = '+'.join(edits)
                        if not strict or not unknown:
                            if outcome == 'refused':
                                res.violation({'kind': 'old_peer_refuses_new_message', 'mode': mode,
                                               'edits': cell_edits, 'unknown': unknown},
                                              {'error': err[:200], 'msg': msg, 'sites': sites}, replay)
                                continue
                            try:
                                back = pyrt.read(pkg_a, a, tA, got)
                                d = pyrt.av_eq(pyrt.public_view(a, tA, view), back)
                            except pyrt.ReadError as e:
                                d = 'unreadable: %s' % e
                            if d:
                                res.violation({'kind': 'old_peer_view_differs', 'mode': mode,
                                               'edits': cell_edits},
                                              {'why': d, 'msg': msg, 'sites': sites}, replay)
                            else:
                                for e_, s_ in evo.applied:
                                    res.see(e_, s_, 'B->A', mode, 'unknown' if unknown else 'known')
                        else:
                            if outcome == 'decoded':
                                res.violation({'kind': 'strict_old_peer_accepts_unknown', 'edits': cell_edits},
                                              {'msg': msg, 'sites': sites}, replay)
                            else:
                                for e_, s_ in evo.applied:
                                    res.see(e_, s_, 'B->A', 'strict', 'refused_unknown')
                    if vi == 0 and ci < n:
                        res.sample({'edits': evo.applied, 'type': label, 'message': msg,
                                    'contains_unknown': unknown}, cap=4)
                # ---- A -> B
                for vi in range(b_['values']):
                    try:
                        av = gen_a.value(tA, avoid_null=True)
                    except Uninhabited:
                        break
                    if av is None or c04.excluded(a, tA, av):
                        continue
                    bav, skip = translate_to_b(evo, tA, av)
                    if skip:
                        res.skip('void_to_required_type_direction_not_promised')
                        continue
                    try:
                        msg = ss.json_compat_obj_encode(vA, pyrt.build(pkg_a, a, av))
                    except Exception:
                        res.skip('a_value_not_encodable')
                        continue
                    for strict in (False, True):
                        res.evaluations += 1
                        res.count('a_to_b_decodes')
                        mode = 'strict' if strict else 'lenient'
                        try:
                            got = ss.json_compat_obj_decode(vB, msg, strict=strict)
                        except bv.ValidationError as e:
                            res.violation({'kind': 'new_peer_refuses_old_message', 'mode': mode,
                                           'edits': '+'.join(edits)},
                                          {'error': str(e)[:200], 'msg': msg, 'sites': sites}, replay)
                            continue
                        except Exception as e:
                            res.violation({'kind': 'decode_raised', 'exc': type(e).__name__, 'dir': 'A->B'},
                                          {'error': repr(e)[:200], 'msg': msg}, replay)
                            continue
                        try:
                            back = pyrt.read(pkg_b, evo.b, tB, got)
                            d = pyrt.av_eq(pyrt.public_view(evo.b, tB, bav), back)
                        except pyrt.ReadError as e:
                            d = 'unreadable: %s' % e
                        if d:
                            res.violation({'kind': 'new_peer_view_differs', 'mode': mode,
                                           'edits': '+'.join(edits)},
                                          {'why': d, 'msg': msg, 'sites': sites}, replay)
                        else:
                            for e_, s_ in evo.applied:
                                res.see(e_, s_, 'A->B', mode)
        finally:
            pkg_a.close()
            pkg_b.close()
