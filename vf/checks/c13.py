"""C13 - omitted fields and redacted values never leak through serialization."""
import itertools
import json

from .. import common
from ..gen.values import ValueGen, Uninhabited, SV, UV
from ..mon import pyrt
from ..ref import wire
from . import rtwork, c04

PROPERTY = 'C13'
LEVEL = 'exploration'
RULE = ('generated specs placing Omitted / RedactedBlot / RedactedHash on struct fields, union tags, patched and '
        'inherited fields (inheritance depth <=4, callers at different levels) and aliases (direct, nullable, '
        'in lists, as map values, nested); values carry unique sentinel strings and have every annotated field '
        'set; each value is encoded by the real serializer for every subset of the declared permissions, with '
        'redaction on and off, and compared with a permission/redaction-aware reference encoder; sentinels '
        'the reference does not show must not occur anywhere in the output text; strict decoding for a caller '
        'without permission c must refuse documents carrying a field omitted for c and accept its own view. '
        'distinct = distinct (annotation kind, placement, permission relation, redaction) cells')
ASSUMPTIONS = ['an encode that raises ValidationError for a caller without access to the selected tag is a non-leak',
               'reference redaction (mask ********, groups joined by ***, md5 hex) mirrors the documented redactors']
REQUIRED_COUNTERS = ['encodings_compared', 'omitted_fields_observed', 'redacted_positions_observed']


def time_limit(tier):
    return common.default_limit(tier)


def budget(tier):
    return dict(specs=60, values=4) if tier == 'quick' else dict(specs=2500, values=6)


def profile():
    return rtwork.rt_profile(p_annotations=1.0, p_field_ann=0.55, max_omitted=3, p_custom_ann=0.0,
                             p_parent=0.7, p_patch=0.4, p_alias=0.3, p_doc=0.05, n_types=(4, 10),
                             p_prefer_redacted_alias=0.5)


class Perms:
    def __init__(self, perms):
        self._p = list(perms)

    @property
    def permissions(self):
        return self._p


class LeakGen(ValueGen):
    """Value generator that sets every annotated field and plants unique sentinels."""

    def __init__(self, m, rnd):
        super().__init__(m, rnd, max_depth=3)
        self.n = 0

    def string_value(self, t):
        if not t.args and self.rnd.random() < 0.7:
            self.n += 1
            return 'S%d~x-secret~xy%d' % (self.n, self.n)
        return super().string_value(t)

    def struct_value(self, d, depth, exact=False):
        av = super().struct_value(d, depth, exact)
        vd = self.m.lookup(av.ns, av.name)
        for f in self.m.struct_all_fields(vd):
            if f.anns and av.fields.get(f.name) is None and depth < self.max_depth:
                try:
                    v = self.value(f.type, depth + 1, avoid_null=True)
                    if v is not None:
                        av.fields[f.name] = v
                except Uninhabited:
                    pass
        return av


def sentinels_in(x, out):
    if isinstance(x, str):
        if x.startswith('S') and '~x-secret~' in x:
            out.add(x)
    elif isinstance(x, dict):
        for k, v in x.items():
            sentinels_in(k, out)
            sentinels_in(v, out)
    elif isinstance(x, list):
        for v in x:
            sentinels_in(v, out)
    elif isinstance(x, SV):
        for v in x.fields.values():
            sentinels_in(v, out)
    elif isinstance(x, UV):
        sentinels_in(x.value, out)
    return out


def annotated_positions(m, t, av, found, inherited=False):
    """Which annotation placements does this value exercise?"""
    if av is None or t is None:
        return
    if t.kind == 'list':
        for x in av:
            annotated_positions(m, t.args['item'], x, found)
        return
    if t.kind == 'map':
        for x in av.values():
            annotated_positions(m, t.args['value'], x, found)
        return
    if t.kind == 'prim':
        return
    d = m.lookup(t.ns, t.name)
    if d.kind == 'alias':
        if wire.redactor_of(m, d.anns):
            found.add(('redactor', 'alias'))
        annotated_positions(m, d.type, av, found)
        return
    if isinstance(av, SV):
        vd = m.lookup(av.ns, av.name)
        own = {f.name for f in m.own_fields(vd)}
        patched = {f.name for f in vd.patch_fields}
        for f in m.struct_all_fields(vd):
            v = av.fields.get(f.name)
            if v is None:
                continue
            place = 'patched_field' if f.name in patched else ('own_field' if f.name in own else 'inherited_field')
            if wire.omitted_caller(m, f):
                found.add(('omitted', place))
            if wire.redactor_of(m, f.anns):
                shape = f.type.kind if f.type.kind in ('list', 'map') else ('nullable' if f.type.nullable else 'scalar')
                found.add(('redactor', place + ':' + shape))
            annotated_positions(m, f.type, v, found)
    elif isinstance(av, UV):
        f = [x for x in m.union_all_fields(m.lookup(av.ns, av.name)) if x.name == av.tag][0]
        if not getattr(f, 'implicit', False):
            if wire.omitted_caller(m, f):
                found.add(('omitted', 'union_tag'))
            if wire.redactor_of(m, f.anns):
                found.add(('redactor', 'union_tag'))
            annotated_positions(m, f.type, av.value, found)


def run_shard(tier, seed, idx, n, res, tmp):
    from stone.backends.python_rsrc import stone_serializers as ss, stone_validators as bv
    b = budget(tier)
    for ci in common.case_range(idx, b['specs'], n, res):
        try:
            case = rtwork.SpecCase(PROPERTY, seed, ci, tmp, profile())
            positions = rtwork.typed_positions(case.m, case.pkg)
        except Exception as e:
            res.skip('package_not_usable:%s' % type(e).__name__)
            continue
        m, pkg, rnd = case.m, case.pkg, case.rnd
        callers = sorted({ad.args[0] for ad in m.defs('annotation') if ad.atype == 'Omitted'})
        subsets = [list(s) for k in range(len(callers) + 1) for s in itertools.combinations(callers, k)]
        subsets += [list(reversed(s)) for s in subsets if len(s) > 1][:3]
        try:
            vg = LeakGen(m, rnd)
            for label, shape, t, validator in positions:
                for vi in range(b['values']):
                    try:
                        av = vg.value(t, avoid_null=True)
                    except Uninhabited:
                        break
                    if av is None or c04.excluded(m, t, av):
                        continue
                    av = normalize_numbers(m, t, av)
                    found = set()
                    annotated_positions(m, t, av, found)
                    if not found and vi > 0:
                        continue
                    try:
                        obj = pyrt.build(pkg, m, av)
                    except Exception as e:
                        res.skip('value_not_buildable')
                        continue
                    all_sent = sentinels_in(av, set())
                    full_doc = None
                    try:
                        full_doc = wire.encode_p(m, t, av, callers, False)
                    except wire.NoAccess:
                        pass
                    for perms in subsets:
                        for redact in (False, True):
                            replay = {'case': ci, 'type': label, 'perms': perms, 'redact': redact,
                                      'av': repr(av)[:500], 'files': case.files}
                            try:
                                expected = wire.encode_p(m, t, av, perms, redact)
                                noaccess = False
                            except wire.NoAccess:
                                expected, noaccess = None, True
                            try:
                                got = ss.json_compat_obj_encode(validator, obj, caller_permissions=Perms(perms),
                                                                should_redact=redact)
                                text = json.dumps(got, ensure_ascii=False)
                                outcome = 'encoded'
                            except bv.ValidationError as e:
                                got, text, outcome = None, '', 'validation_error'
                                err = str(e)
                            except Exception as e:
                                res.violation({'kind': 'encode_raised', 'exc': type(e).__name__,
                                               'site': '%s:%s' % common.exc_site(e)},
                                              {'error': repr(e)[:200], 'perms': perms}, replay)
                                continue
                            res.evaluations += 1
                            res.count('encodings_compared')
                            rel = 'all' if set(perms) == set(callers) else ('none' if not perms else 'some')
                            if noaccess:
                                if outcome == 'encoded':
                                    res.violation({'kind': 'omitted_tag_encoded_without_permission'},
                                                  {'got': got, 'perms': perms}, replay)
                                else:
                                    res.see('omitted', 'union_tag', 'refused_without_permission')
                                continue
                            if outcome == 'validation_error':
                                res.violation({'kind': 'encode_refused', 'relation': rel,
                                               'reason': _reason(err)},
                                              {'error': err[:200], 'perms': perms, 'expected': expected}, replay)
                                continue
                            diff = wire.json_eq(expected, got)
                            if diff:
                                kind = 'omitted_view_differs' if not redact else 'redacted_view_differs'
                                res.violation({'kind': kind, 'relation': rel, 'what': _what(diff)},
                                              {'diff': diff, 'expected': expected, 'got': got, 'perms': perms},
                                              replay)
                            # generic leak search, independent of structure
                            visible = sentinels_in(expected, set())
                            leaked = [s for s in all_sent - visible if s in text]
                            if leaked:
                                res.violation({'kind': 'sentinel_leaked', 'redact': redact, 'relation': rel},
                                              {'leaked': leaked[:3], 'perms': perms}, replay)
                            for k in found:
                                if k[0] == 'omitted':
                                    res.count('omitted_fields_observed')
                                    res.see(k[0], k[1], rel, 'redact' if redact else 'plain')
                                elif redact:
                                    res.count('redacted_positions_observed')
                                    res.see(k[0], k[1], rel)
                        # decoding: own view accepted, full document refused for callers lacking a permission
                        try:
                            view = wire.encode_p(m, t, av, perms, False)
                        except wire.NoAccess:
                            continue
                        res.evaluations += 1
                        try:
                            back = ss.json_compat_obj_decode(validator, _plain(view), caller_permissions=Perms(perms),
                                                             strict=True)
                            again = ss.json_compat_obj_encode(validator, back, caller_permissions=Perms(perms))
                            d2 = wire.json_eq(view, again)
                            if d2:
                                res.violation({'kind': 'own_view_does_not_round_trip', 'what': _what(d2)},
                                              {'diff': d2, 'perms': perms}, {'case': ci, 'type': label,
                                                                            'files': case.files})
                        except bv.ValidationError as e:
                            res.violation({'kind': 'own_view_refused', 'reason': _reason(str(e))},
                                          {'error': str(e)[:200], 'perms': perms, 'view': view},
                                          {'case': ci, 'type': label, 'files': case.files})
                        except Exception as e:
                            res.violation({'kind': 'decode_raised', 'exc': type(e).__name__,
                                           'site': '%s:%s' % common.exc_site(e)},
                                          {'error': repr(e)[:200], 'perms': perms},
                                          {'case': ci, 'type': label, 'files': case.files})
                        if full_doc is not None and wire.json_eq(full_doc, view):
                            res.count('decode_of_foreign_fields')
                            try:
                                ss.json_compat_obj_decode(validator, _plain(full_doc),
                                                          caller_permissions=Perms(perms), strict=True)
                                res.violation({'kind': 'omitted_field_accepted_without_permission'},
                                              {'perms': perms, 'doc': full_doc},
                                              {'case': ci, 'type': label, 'files': case.files})
                            except bv.ValidationError:
                                res.see('decode', 'omitted_field_refused', 'strict')
                            except Exception as e:
                                res.violation({'kind': 'decode_raised', 'exc': type(e).__name__,
                                               'site': '%s:%s' % common.exc_site(e)},
                                              {'error': repr(e)[:200], 'perms': perms},
                                              {'case': ci, 'type': label, 'files': case.files})
                    if vi == 0 and ci < n and found:
                        res.sample({'type': label, 'placements': sorted(map(str, found)), 'callers': callers},
                                   cap=4)
        finally:
            case.close()


def normalize_numbers(m, t, av):
    """ints in float positions are stored as floats (documented normalisation):
    redaction hashes what is stored."""
    from ..gen.model import PRIM_FLOATS
    if av is None or t is None:
        return av
    if t.kind == 'prim':
        if t.name in PRIM_FLOATS and isinstance(av, int) and not isinstance(av, bool):
            return float(av)
        return av
    if t.kind == 'list':
        return [normalize_numbers(m, t.args['item'], x) for x in av]
    if t.kind == 'map':
        return {k: normalize_numbers(m, t.args['value'], v) for k, v in av.items()}
    d = m.lookup(t.ns, t.name)
    if d.kind == 'alias':
        return normalize_numbers(m, d.type, av)
    if isinstance(av, SV):
        vd = m.lookup(av.ns, av.name)
        types = {f.name: f.type for f in m.struct_all_fields(vd)}
        return SV(av.ns, av.name, {k: normalize_numbers(m, types[k], v) for k, v in av.fields.items()})
    if isinstance(av, UV):
        f = [x for x in m.union_all_fields(m.lookup(av.ns, av.name)) if x.name == av.tag][0]
        return UV(av.ns, av.name, av.tag, normalize_numbers(m, f.type, av.value))
    return av


def _plain(x):
    if isinstance(x, dict):
        return {k: _plain(v) for k, v in x.items()}
    if isinstance(x, list):
        return [_plain(v) for v in x]
    return x


def _reason(msg):
    import re
    msg = re.sub(r"'[^']*'", "'_'", msg)
    msg = re.sub(r'^[\w.\[\]]+: ', '', msg)
    return re.sub(r'\d+', 'N', msg)[:60]


def _what(diff):
    if 'keys' in diff:
        return 'keys'
    if 'kind' in diff:
        return 'kind'
    return 'value'
