"""C18 - backends write only inside the output folder, verbatim, as the manifest says."""
import itertools
import json
import os
import random
import shutil

from .. import common
from ..gen import model as gm, render as gr
from ..mon import fsaudit, backends as B, cli
from ..ref import emit as ref_emit

PROPERTY = 'C18'
LEVEL = 'exploration'
RULE = ('(a) every relative path of depth <=4 over {name, ., .., nested dir, absolute path into a foreign area, '
        'trailing slash, unicode} through output_to_relative_path, copy_to_path (destination joined to the '
        'target folder and relative to the cwd) and the Swift writer, in real and manifest mode, inside a fresh '
        'sandbox case/{out,sibling,outside}: a before/after snapshot of the whole sandbox (authoritative) and '
        'the audit-hook log of write-like events (evidence) decide that nothing outside `out` changed and that '
        'a refused request wrote nothing; (b) random emit scripts (emit, emit_raw, emit_wrapped_text, indent, '
        'block, generate_multiline_list, positional/named placeholders; text with braces, format-like '
        'sequences, unicode) against a reference pretty-printer; (c) every built-in backend configuration x '
        'generated specs: Compiler.output_manifest() and the CLI --output-manifest list equal the set of '
        'files a real run creates and a manifest run creates no file. distinct = distinct (entry point, mode, '
        'path class, outcome) + (emit operation, text class) + (backend, manifest agreement) cells')
RULE += ' ' + 'Emit texts include CR and other control characters; (c) also runs a backend module holding several Backend classes.'
ASSUMPTIONS = ['directories created inside the output folder are not files; symbolic links are out of scope']
REQUIRED_COUNTERS = ['path_requests', 'emit_scripts', 'manifest_comparisons']


def time_limit(tier):
    return common.default_limit(tier)


def budget(tier):
    return dict(path_depth=3, scripts=8000, specs=24) if tier == 'quick' else \
        dict(path_depth=4, scripts=60000, specs=300)


SEGS = ['f.txt', '.', '..', 'd', 'é', 'sub/']


def path_class(p, absolute):
    parts = [x for x in p.split('/') if x]
    cls = []
    if absolute:
        cls.append('absolute')
    if '..' in parts:
        cls.append('dotdot')
    if '.' in parts:
        cls.append('dot')
    if p.endswith('/'):
        cls.append('trailing_slash')
    if 'é' in p:
        cls.append('unicode')
    return '+'.join(cls) or 'plain'


def make_backend_classes():
    from stone.backend import CodeBackend

    from stone.backends.swift import SwiftBaseBackend

    class PathBackend(CodeBackend):
        def generate(self, api):
            pass

    class SwiftPathBackend(SwiftBaseBackend):
        def generate(self, api):
            pass
    return PathBackend, SwiftPathBackend


def run_paths(res, tmp, depth, idx, n):
    from stone.backend import OutputManifest
    PathBackend, SwiftPathBackend = make_backend_classes()
    case = os.path.realpath(os.path.join(tmp, 'case'))
    out, sibling, outside = (os.path.join(case, x) for x in ('out', 'sibling', 'outside'))

    def reset():
        shutil.rmtree(case, ignore_errors=True)
        for d in (out, sibling, outside):
            os.makedirs(d)
        for d in (sibling, outside, case):
            with open(os.path.join(d, 'keep.txt'), 'w') as f:
                f.write('original')
        with open(os.path.join(case, 'src.txt'), 'w') as f:
            f.write('copied content')
    reset()
    old_cwd = os.getcwd()
    os.chdir(case)
    try:
        k = 0
        rels = []
        for L in range(1, depth + 1):
            for combo in itertools.product(SEGS, repeat=L):
                rels.append('/'.join(s.rstrip('/') if i < L - 1 else s for i, s in enumerate(combo)))
        rels = list(dict.fromkeys(rels))
        cands = [(r, False) for r in rels]
        cands += [(os.path.join(outside, r), True) for r in rels[:40]]
        cands += [(os.path.join(out, r), True) for r in rels[:60]]
        cands += [(out + '2/x.txt', True), (out + '/../out2/x.txt', True), ('/' + 'x' * 10, True)]
        for rel, absolute in cands:
            k += 1
            if k % n != idx:
                continue
            for entry in ('output_to_relative_path', 'copy_to_path_joined', 'copy_to_path_cwd', 'swift_writer'):
                real_result = None
                for manifest in (False, True):
                    before = fsaudit.snapshot(case)
                    man = OutputManifest() if manifest else None
                    if entry == 'swift_writer':
                        be = SwiftPathBackend(out, [])
                    else:
                        be = PathBackend(out, [])
                    be.output_manifest = man
                    outcome, err = 'done', None
                    with fsaudit.Watch() as w:
                        try:
                            if entry == 'output_to_relative_path':
                                with be.output_to_relative_path(rel):
                                    be.emit('payload')
                            elif entry == 'copy_to_path_joined':
                                be.copy_to_path(os.path.join(case, 'src.txt'), os.path.join(out, rel))
                            elif entry == 'copy_to_path_cwd':
                                be.copy_to_path('src.txt', os.path.join('out', rel) if not absolute else rel)
                            else:
                                be._write_output_in_target_folder('payload', rel)
                        except AssertionError as e:
                            outcome, err = 'refused', str(e)
                        except (OSError, ValueError) as e:
                            outcome, err = 'os_error', type(e).__name__
                        except Exception as e:
                            outcome, err = 'raised', repr(e)
                    after = fsaudit.snapshot(case)
                    changes = fsaudit.diff(before, after)
                    res.evaluations += 1
                    res.count('path_requests')
                    res.count('audit_events', len(w.events))
                    pc = path_class(rel, absolute)
                    replay = {'workload': 'path', 'entry': entry, 'manifest': manifest, 'path': rel}
                    outside_changes = [c for c in changes if not (c[0] == 'out' or c[0].startswith('out/'))]
                    file_changes = [c for c in changes if c[1] != 'created_dir']
                    if outside_changes:
                        res.violation({'kind': 'wrote_outside_output_folder', 'entry': entry,
                                       'manifest': manifest},
                                      {'path': rel, 'changes': outside_changes[:4], 'outcome': outcome}, replay)
                    ev_out = [e for e in w.events if not (e[1] == out or e[1].startswith(out + os.sep))]
                    if ev_out and outcome != 'os_error':
                        res.violation({'kind': 'write_attempt_outside_output_folder', 'entry': entry,
                                       'manifest': manifest},
                                      {'path': rel, 'events': ev_out[:4], 'outcome': outcome}, replay)
                    if outcome in ('refused', 'raised') and file_changes:
                        res.violation({'kind': 'refused_request_wrote', 'entry': entry},
                                      {'path': rel, 'changes': file_changes[:4], 'error': err}, replay)
                    if outcome == 'raised':
                        res.violation({'kind': 'path_request_raised_unexpectedly', 'entry': entry},
                                      {'path': rel, 'error': err}, replay)
                    if manifest and file_changes:
                        res.violation({'kind': 'manifest_run_created_file', 'entry': entry},
                                      {'path': rel, 'changes': file_changes[:4]}, replay)
                    created = sorted(os.path.relpath(c[0], 'out') for c in changes
                                     if c[1] != 'created_dir' and (c[0] == 'out' or c[0].startswith('out/')))
                    if not manifest:
                        real_result = (outcome, created)
                    elif real_result is not None:
                        # a manifest run reports exactly the files the real run creates
                        listed_now = sorted(man.outputs()) if outcome == 'done' else []
                        r_outcome, r_created = real_result
                        if r_outcome == 'done' and outcome == 'done' and listed_now != r_created:
                            res.violation({'kind': 'manifest_differs_from_real_run', 'entry': entry},
                                          {'path': rel, 'listed': listed_now, 'created': r_created}, replay)
                        elif r_outcome != 'done' and listed_now:
                            res.violation({'kind': 'manifest_reports_files_but_real_run_fails', 'entry': entry,
                                           'real': r_outcome},
                                          {'path': rel, 'listed': listed_now}, replay)
                        else:
                            res.count('manifest_vs_real_path_requests')
                    if manifest and outcome == 'done':
                        listed = man.outputs()
                        if any(x.startswith('..') or os.path.isabs(x) for x in listed):
                            res.violation({'kind': 'manifest_lists_path_outside', 'entry': entry},
                                          {'path': rel, 'listed': listed}, replay)
                    res.see(entry, 'manifest' if manifest else 'real', pc, outcome)
                    if changes or outcome == 'os_error':
                        reset()
                        os.chdir(case)
    finally:
        os.chdir(old_cwd)
        shutil.rmtree(case, ignore_errors=True)


def run_scripts(res, tmp, seed, count, idx, n):
    from stone.backend import CodeBackend

    class ScriptBackend(CodeBackend):
        script = None

        def generate(self, api):
            with self.output_to_relative_path('script.out'):
                ref_emit.run_real(self, self.script)

    out = os.path.join(tmp, 'scripts')
    for si in common.case_range(idx, count, n, res):
        rnd = random.Random(common.case_seed(PROPERTY, seed, si, 'script'))
        ops = ref_emit.random_script(rnd)
        be = ScriptBackend(out, [])
        be.script = ops
        res.evaluations += 1
        res.count('emit_scripts')
        replay = {'workload': 'script', 'ops': ops}
        try:
            be.generate(None)
        except Exception as e:
            res.violation({'kind': 'emit_raised', 'exc': type(e).__name__,
                           'site': '%s:%s' % common.exc_site(e)},
                          {'error': repr(e)[:200]}, replay)
            continue
        data = open(os.path.join(out, 'script.out'), 'rb').read()
        try:
            text = data.decode('utf-8')
        except UnicodeDecodeError as e:
            res.violation({'kind': 'output_not_utf8'}, {'error': str(e)}, replay)
            continue
        ref = ref_emit.Ref().run(ops)
        d = ref_emit.compare(ref, text)
        if d:
            res.violation({'kind': 'emitted_text_differs', 'ops': '+'.join(sorted({o[0] for o in _flat(ops)}))[:60]},
                          {'diff': d}, replay)
        else:
            for o in _flat(ops):
                res.see('emit_op', o[0], _text_class(o))
        if si < n:
            res.sample({'script_ops': [o[0] for o in ops], 'output_head': text[:160]}, cap=2)
    shutil.rmtree(out, ignore_errors=True)


def _flat(ops):
    for o in ops:
        yield o
        if o[0] == 'indent':
            yield from _flat(o[2])
        elif o[0] == 'block':
            yield from _flat(o[6])


def _text_class(o):
    s = repr(o[1:3])
    return ('braces' if ('{' in s or '}' in s) else 'plain') + ('+percent' if '%' in s else '')


_MULTI = []


def _load_multi_backend():
    if not _MULTI:
        import importlib.machinery
        import importlib.util
        path = os.path.join(common.VERIF, 'harness', 'multi.stoneg.py')
        loader = importlib.machinery.SourceFileLoader('vf_multi_stoneg', path)
        spec = importlib.util.spec_from_loader('vf_multi_stoneg', loader)
        mod = importlib.util.module_from_spec(spec)
        loader.exec_module(mod)
        _MULTI.append(mod)
    return _MULTI[0]


def run_manifests(res, tmp, seed, specs, idx, n):
    from stone.frontend.frontend import specs_to_ir
    from stone.compiler import BackendException
    for ci in common.case_range(idx, specs, n, res):
        cs = common.case_seed(PROPERTY, seed, ci)
        m = gm.generate(cs, gm.make_profile(cfg_style='dropbox' if ci % 2 else None,
                                            route_arg_kinds=('struct', 'union', 'void')))
        files = gr.render(m, None)
        base = os.path.join(tmp, 'man%d' % ci)
        for cfg in B.ORDER:
            real_dir = os.path.join(base, 'real_' + cfg)
            man_dir = os.path.join(base, 'man_' + cfg)
            replay = {'workload': 'manifest', 'backend': cfg, 'files': files}
            try:
                B.run_backend(specs_to_ir(files), cfg, real_dir)
                real_ok = True
            except BackendException:
                real_ok = False
            try:
                c = B.run_backend(specs_to_ir(files), cfg, man_dir, manifest=True)
                man_ok = True
            except BackendException:
                man_ok = False
            res.evaluations += 1
            res.count('manifest_comparisons')
            if real_ok != man_ok:
                res.violation({'kind': 'manifest_and_real_run_disagree_on_failure', 'backend': cfg},
                              {'real_ok': real_ok, 'manifest_ok': man_ok}, replay)
            elif real_ok:
                actual = sorted(B.read_tree(real_dir))
                listed = sorted(c.output_manifest())
                created = sorted(B.read_tree(man_dir)) if os.path.isdir(man_dir) else []
                if listed != actual:
                    res.violation({'kind': 'manifest_differs_from_real_outputs', 'backend': cfg},
                                  {'only_listed': sorted(set(listed) - set(actual))[:5],
                                   'only_created': sorted(set(actual) - set(listed))[:5]}, replay)
                if created:
                    res.violation({'kind': 'manifest_run_created_file', 'entry': cfg},
                                  {'created': created[:5]}, replay)
                if listed == actual and not created:
                    res.see('manifest', cfg, 'agrees', min(len(actual), 5))
            else:
                res.see('manifest', cfg, 'both_raise')
            shutil.rmtree(real_dir, ignore_errors=True)
            shutil.rmtree(man_dir, ignore_errors=True)
        # a backend module holding several concrete Backend classes: the compiler runs all of them, and
        # the manifest must list the files of all of them
        from stone.compiler import Compiler
        multi = _load_multi_backend()
        real_dir, man_dir = os.path.join(base, 'real_multi'), os.path.join(base, 'man_multi')
        try:
            Compiler(specs_to_ir(files), multi, [], real_dir).build()
            c = Compiler(specs_to_ir(files), multi, [], man_dir, output_manifest=True)
            c.build()
            res.evaluations += 1
            res.count('manifest_comparisons')
            actual = sorted(B.read_tree(real_dir))
            listed = sorted(c.output_manifest())
            created = sorted(B.read_tree(man_dir)) if os.path.isdir(man_dir) else []
            if listed != actual or created:
                res.violation({'kind': 'manifest_differs_from_real_outputs', 'backend': 'several_backend_classes'},
                              {'only_listed': sorted(set(listed) - set(actual))[:5],
                               'only_created': sorted(set(actual) - set(listed))[:5], 'created': created[:3]},
                              {'workload': 'manifest_multi', 'files': files})
            else:
                res.see('manifest', 'several_backend_classes', 'agrees', min(len(actual), 5))
        except BackendException as e:
            res.violation({'kind': 'multi_backend_module_raised'}, {'error': e.traceback[-300:]},
                          {'workload': 'manifest_multi', 'files': files})
        # through the command line, one backend per spec
        cfgname = B.ORDER[ci % len(B.ORDER)]
        modname, args = B.CONFIGS[cfgname]
        d = os.path.join(base, 'cli')
        paths = cli.write_specs(files, d)
        r1 = cli.run_subprocess([modname, os.path.join(d, 'o1')] + paths + ['-a', ':all', '--output-manifest'],
                                args)
        r2 = cli.run_subprocess([modname, os.path.join(d, 'o2')] + paths + ['-a', ':all'], args)
        res.count('cli_manifest_runs')
        if r1.returncode == 0 and r2.returncode == 0:
            try:
                listed = sorted(json.loads(r1.stdout.decode('utf-8')))
            except ValueError:
                listed = None
            actual = sorted(B.read_tree(os.path.join(d, 'o2')))
            created = sorted(B.read_tree(os.path.join(d, 'o1'))) if os.path.isdir(os.path.join(d, 'o1')) else []
            if listed != actual or created:
                res.violation({'kind': 'cli_manifest_differs', 'backend': cfgname},
                              {'listed': listed and listed[:6], 'actual': actual[:6], 'created': created[:4]},
                              {'workload': 'cli_manifest', 'backend': cfgname, 'files': files})
            else:
                res.see('cli_manifest', cfgname, 'agrees')
        elif r1.returncode != r2.returncode:
            res.violation({'kind': 'cli_manifest_exit_differs', 'backend': cfgname},
                          {'manifest': r1.returncode, 'real': r2.returncode,
                           'stderr': r1.stderr[-200:].decode('utf-8', 'replace')},
                          {'workload': 'cli_manifest', 'backend': cfgname, 'files': files})
        shutil.rmtree(base, ignore_errors=True)


def run_shard(tier, seed, idx, n, res, tmp):
    b = budget(tier)
    run_paths(res, tmp, b['path_depth'], idx, n)
    run_scripts(res, tmp, seed, b['scripts'], idx, n)
    run_manifests(res, tmp, seed, b['specs'], idx, n)
