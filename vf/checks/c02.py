"""C02 - the API description is a faithful, closed image of the accepted specs."""
import random

from .. import common
from ..gen import model as gm, render as gr
from ..mon import boundary
from ..ref import irexpect
from . import c02inv

PROPERTY = 'C02'
LEVEL = 'exploration'
RULE = ('every generated model is rendered (reference layout + two random layouts), compiled with the real '
        'specs_to_ir, and the returned Api is read through its public attributes into the same shape as '
        'an expectation computed from the model alone (names, field order, type trees, nullability, '
        'defaults, docs, annotations, route versions/deprecation/attrs with schema defaults, implicit '
        '`other`, expanded examples); every difference is a violation.  The closure/ordering invariants '
        '(vf/checks/c02inv.py) run on every accepted compile of this and of C01/C03.  distinct = distinct '
        '(declaration kind.attribute) cells compared x model features crossed')
RULE += ' ' + 'Also compared: the order of examples, the namespaces recorded as imported for types and aliases, and namespace docs concatenated in file order (also when the files that carry them are permuted).'
ASSUMPTIONS = ['the expectation is written from docs/lang_ref.rst and docs/json_serializer.rst',
               'docs of undocumented annotated fields ("... None") are unspecified and not compared']
REQUIRED_COUNTERS = ['apis_compared', 'invariant_evals']


def time_limit(tier):
    return common.default_limit(tier)


def budget(tier):
    return dict(models=400 if tier == 'quick' else 12000)


def count_cells(x, res, path=()):
    """Record which (kind.attribute) cells the comparison actually visited."""
    if isinstance(x, dict):
        for k, v in x.items():
            count_cells(v, res, path + (k,))
    elif isinstance(x, list):
        for i, v in enumerate(x):
            count_cells(v, res, path + (v.get('name', i) if isinstance(v, dict) else i,))
    else:
        res.see('cell', irexpect.cell_of(path))


def run_shard(tier, seed, idx, n, res, tmp):
    b = budget(tier)
    for ci in common.case_range(idx, b['models'], n, res):
        cs = common.case_seed(PROPERTY, seed, ci)
        m = gm.generate(cs, gm.make_profile(p_linebreak_literal=0.15, p_multi_ns_doc=0.3))
        exp0 = irexpect.expect(m)
        for li, lay in enumerate([None, gr.Layout(cs + 1), gr.Layout(cs + 2, permute_doc_files=True)]):
            files = gr.render(m, lay)
            exp = exp0
            if lay is not None and any(o != sorted(o) for o in getattr(lay, 'doc_order', {}).values()):
                # the files carrying the docs of a namespace were given in another order: the docs
                # concatenate in that order (documented)
                exp = irexpect.expect(m, lay.doc_order)
                res.count('layouts_with_permuted_doc_files')
            klass, payload = boundary.compile_outcome(files)
            res.evaluations += 1
            replay = {'case': ci, 'layout': li, 'files': files}
            if klass != 'api':
                res.count('not_accepted')
                if klass == 'watchdog':
                    res.inconclusive.append('watchdog on case %d' % ci)
                else:
                    res.violation({'kind': 'valid_not_accepted', 'class': klass},
                                  {'error': repr(payload)[:300]}, replay)
                continue
            res.count('invariant_evals')
            for b_ in c02inv.check_api_invariants(payload):
                res.violation({'kind': 'ir_invariant', 'which': b_[0]}, b_[1], replay)
            got = irexpect.observe(payload)
            res.count('apis_compared')
            diffs = list(irexpect.diff(exp, got))
            if li == 0:
                count_cells(exp, res)
                for f in m.features:
                    res.see('feature', f)
            for nsname, nd in exp['namespaces'].items():
                have = got['namespaces'].get(nsname, {}).get('imports', {}).get('includes', [])
                lost = [x for x in nd['imports']['_must_include'] if x not in have]
                res.count('import_lists_compared')
                if lost:
                    diffs.append((('namespaces', nsname, 'imports', 'includes'), lost, have))
            seen = set()
            for path, e, g in diffs:
                cell = irexpect.cell_of(path)
                if cell in seen:
                    continue
                seen.add(cell)
                res.violation({'kind': 'ir_mismatch', 'cell': cell},
                              {'path': [str(p) for p in path], 'expected': e, 'got': g}, replay)
            if ci < n and li == 0:
                ns0 = next(iter(exp['namespaces']))
                res.sample({'case': ci, 'namespaces': list(exp['namespaces']),
                            'types_in_first_ns': list(exp['namespaces'][ns0]['types'])[:6],
                            'differences': len(diffs), 'features': dict(m.features)}, cap=3)


def replay(payload):
    common.use_repo()
    files = [tuple(x) for x in payload['files']]
    klass, p = boundary.compile_outcome(files)
    print(klass, repr(p)[:300])
