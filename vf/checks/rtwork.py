"""Shared workload of the Python-runtime checks (C04, C05, ...): generated spec ->
python_types package -> typed positions with their generated validators."""
import random

from .. import common
from ..gen import model as gm, render as gr
from ..gen.model import ref, T
from ..mon import pyrt


def rt_profile(**over):
    base = dict(p_cfg_union_attr=0.0, p_doc=0.2, p_examples=0.0, max_depth=3, p_container=0.4,
                p_nullable=0.35, p_subtypes=0.3, p_parent=0.5, n_types=(3, 9), n_routes=(1, 4),
                p_annotations=0.3, p_custom_ann=0.2, max_omitted=0,
                p_tag_named_like_member_field=0.25, p_marker_chain=0.15,
                p_ts_offset_format=0.25, p_alias_of_alias=0.25, p_odd_alias_name=0.2,
                p_twin_subtype_trees=0.3, p_alias_of_container_of_alias=0.15, p_sibling_same_tag=0.5)
    base.update(over)
    return gm.make_profile(**base)


def route_key(r):
    return r.name if r.version == 1 else '%s:%d' % (r.name, r.version)


def typed_positions(m, pkg):
    """[(label, shape, T, validator)] for every struct, union, alias and route slot."""
    out = []
    seen = set()
    for d in m.defs():
        if d.kind in ('struct', 'union', 'alias'):
            t = ref(d.ns, d.name)
            out.append(('%s.%s' % (d.ns, d.name), d.kind, t, pkg.validator(d.ns, d.name)))
    for d in m.defs('route'):
        robj = pkg.mod(d.ns).ROUTES[route_key(d)]
        for slot, attr in (('arg', 'arg_type'), ('result', 'result_type'), ('error', 'error_type')):
            t = getattr(d, slot)
            if t.kind == 'prim' and t.name == 'Void':
                continue
            k = (d.ns, t.key())
            if t.kind == 'ref' and not t.nullable:
                continue      # same validator object as the type itself
            if k in seen:
                continue
            seen.add(k)
            out.append(('%s.%s.%s' % (d.ns, route_key(d), slot), 'route_' + slot, t, getattr(robj, attr)))
    return out


def shape_path(m, t, av, depth=0):
    """Abstract shape of a value, e.g. struct>field:map>nullable>subtype-leaf."""
    from ..gen.values import SV, UV
    if depth > 4:
        return '...'
    if t is None:
        return 'void'
    pre = 'nullable>' if t.nullable else ''
    if av is None:
        return pre + 'null'
    if t.kind == 'prim':
        return pre + t.name
    if t.kind == 'list':
        return pre + 'list>' + (shape_path(m, t.args['item'], av[0], depth + 1) if av else 'empty')
    if t.kind == 'map':
        return pre + 'map>' + (shape_path(m, t.args['value'], next(iter(av.values())), depth + 1)
                                if av else 'empty')
    d = m.lookup(t.ns, t.name)
    if d.kind == 'alias':
        return pre + 'alias>' + shape_path(m, d.type, av, depth + 1)
    if d.kind == 'struct':
        kind = 'subtype-leaf' if d.subtypes else ('child-struct' if d.parent else 'struct')
        vd = m.lookup(av.ns, av.name)
        inner = ''
        for f in m.struct_all_fields(vd):
            if f.name in av.fields and not (f.type.kind == 'prim'):
                inner = '>field:' + shape_path(m, f.type, av.fields[f.name], depth + 1)
                break
        return pre + kind + inner
    f = [x for x in m.union_all_fields(m.lookup(av.ns, av.name)) if x.name == av.tag][0]
    kind = 'union' + ('-child' if d.parent else '')
    return pre + kind + '>tag:' + shape_path(m, f.type, av.value, depth + 1)


class SpecCase:
    """One generated spec with its imported python_types package."""

    def __init__(self, prop, seed, ci, tmp, profile, extra_backends=()):
        self.cs = common.case_seed(prop, seed, ci)
        self.rnd = random.Random(self.cs)
        self.m = gm.generate(self.cs, profile)
        self.files = gr.render(self.m, None)
        self.pkg = pyrt.Pkg(self.files, tmp, extra_backends=extra_backends)

    def close(self):
        self.pkg.close()
