"""Observation of the frontend at its public boundary (specs_to_ir)."""
import time

from .. import common

_fast_factory = None


def _fast_factory_call(debug=False):
    """Re-use one ParserFactory through the repository's own get_parser() path
    (resetting the error lists a fresh factory would start with)."""
    global _fast_factory
    import stone.frontend.parser as P
    if _fast_factory is None:
        _fast_factory = P.ParserFactory(debug=False)
    f = _fast_factory
    f.errors = []
    f.lexer.errors = []
    f.lexer.last_token = None
    f.lexer.tokens_queue = None
    f.lexer.cur_indent = None
    return f


def compile_outcome(files, fast=False, limit=10, **kw):
    """Returns (klass, payload): klass in api | invalid_spec | escape | watchdog."""
    import stone.frontend.frontend as fe
    from stone.frontend.exception import InvalidSpec
    orig = fe.ParserFactory
    if fast:
        fe.ParserFactory = _fast_factory_call
    t0 = time.time()
    try:
        with common.watchdog(limit):
            api = fe.specs_to_ir(files, **kw)
        return 'api', api
    except InvalidSpec as e:
        return 'invalid_spec', e
    except common.Watchdog:
        return 'watchdog', time.time() - t0
    except RecursionError as e:
        return 'escape', e
    except Exception as e:   # noqa
        return 'escape', e
    finally:
        fe.ParserFactory = orig


def check_invalid_spec(e, paths):
    """Property C03: non-empty string message; path is one of the inputs (or None)."""
    problems = []
    if not isinstance(e.msg, str) or not e.msg.strip():
        problems.append('empty_message')
    if e.path is not None and e.path not in paths:
        problems.append('foreign_path')
    if e.lineno is not None and not isinstance(e.lineno, int):
        problems.append('bad_lineno')
    return problems


def escape_signature(e):
    f, fn = common.exc_site(e)
    return {'kind': 'escape', 'exc': type(e).__name__, 'site': '%s:%s' % (f, fn)}
