"""Generate python_types for a model, import it under a unique package name, build
instances from abstract values through the documented API and read them back."""
import importlib
import os
import shutil
import sys

from .. import common
from ..gen.values import SV, UV
from ..gen.model import PRIM_FLOATS

_counter = [0]


class Pkg:
    def __init__(self, files, tmp, extra_backends=(), whitelist=None, api=None):
        from stone.frontend.frontend import specs_to_ir
        from . import backends as B
        _counter[0] += 1
        self.name = 'vfpkg_%d_%d' % (os.getpid(), _counter[0])
        self.root = os.path.join(tmp, 'py_%s' % self.name)
        self.dir = os.path.join(self.root, self.name)
        os.makedirs(self.dir)
        open(os.path.join(self.dir, '__init__.py'), 'w').close()
        self.api = api if api is not None else specs_to_ir(files, route_whitelist_filter=whitelist)
        B.run_backend(self.api, ('python_types', ['-p', self.name, '-r',
                                                  self.name + '.client_base.{ns}_{route}']), self.dir)
        for cfg in extra_backends:
            api2 = specs_to_ir(files, route_whitelist_filter=whitelist)
            B.run_backend(api2, cfg, self.dir)
        sys.path.insert(0, self.root)
        self.mods = {}

    def mod(self, ns):
        if ns not in self.mods:
            self.mods[ns] = importlib.import_module('%s.%s' % (self.name, ns))
        return self.mods[ns]

    def cls(self, ns, name):
        return getattr(self.mod(ns), name)

    def validator(self, ns, name):
        return getattr(self.mod(ns), name + '_validator')

    def close(self):
        if self.root in sys.path:
            sys.path.remove(self.root)
        for k in list(sys.modules):
            if k == self.name or k.startswith(self.name + '.'):
                del sys.modules[k]
        shutil.rmtree(self.root, ignore_errors=True)


def build(pkg, m, av, use_ctor=None):
    """AV -> instance, using only the documented API."""
    if isinstance(av, SV):
        cls = pkg.cls(av.ns, av.name)
        d = m.lookup(av.ns, av.name)
        vals = {k: build(pkg, m, v, use_ctor) for k, v in av.fields.items()}
        if use_ctor:
            obj = cls(**{k: v for k, v in vals.items() if v is not None})
            for k, v in vals.items():
                if v is None:
                    setattr(obj, k, v)
            return obj
        obj = cls()
        for k, v in vals.items():
            setattr(obj, k, v)
        return obj
    if isinstance(av, UV):
        cls = pkg.cls(av.ns, av.name)
        d = m.lookup(av.ns, av.name)
        f = [x for x in m.union_all_fields(d) if x.name == av.tag][0]
        if f.type is None:
            return getattr(cls, av.tag)
        return getattr(cls, av.tag)(build(pkg, m, av.value, use_ctor))
    if isinstance(av, list):
        return [build(pkg, m, x, use_ctor) for x in av]
    if isinstance(av, tuple):
        return tuple(build(pkg, m, x, use_ctor) for x in av)
    if isinstance(av, dict):
        return {k: build(pkg, m, v, use_ctor) for k, v in av.items()}
    return av


class ReadError(Exception):
    pass


def read(pkg, m, t, obj):
    """instance -> AV (public view: unset optional fields read as default / None),
    using attribute reads, is_<tag>() and get_<tag>() only."""
    if t is None:
        return None
    if obj is None:
        return None
    if t.kind == 'prim':
        return obj
    if t.kind == 'list':
        if not isinstance(obj, list):
            raise ReadError('expected list, got %r' % type(obj))
        return [read(pkg, m, t.args['item'], x) for x in obj]
    if t.kind == 'map':
        if not isinstance(obj, dict):
            raise ReadError('expected dict, got %r' % type(obj))
        return {k: read(pkg, m, t.args['value'], v) for k, v in obj.items()}
    d = m.lookup(t.ns, t.name)
    if d.kind == 'alias':
        return read(pkg, m, d.type, obj)
    if d.kind == 'struct':
        # find the most specific declared class of obj
        vd = d
        if d.subtypes:
            for leaf in m.leaves(d):
                if type(obj) is pkg.cls(leaf.ns, leaf.name):
                    vd = leaf
        if type(obj) is not pkg.cls(vd.ns, vd.name):
            raise ReadError('expected %s, got %r' % (vd.name, type(obj)))
        fields = {}
        for f in m.struct_all_fields(vd):
            try:
                v = getattr(obj, f.name)
            except AttributeError:
                raise ReadError('required field %s unset' % f.name)
            fields[f.name] = read(pkg, m, f.type, v)
        return SV(vd.ns, vd.name, fields)
    # union: the object may be an instance of d or of one of d's ancestors
    ucls = type(obj)
    owner = None
    for u in reversed(m.chain(d)):
        if pkg.cls(u.ns, u.name) is ucls:
            owner = u
    if owner is None:
        raise ReadError('union class %r is not %s or an ancestor' % (ucls, d.name))
    tags = [f for f in m.union_all_fields(owner)]
    hit = [f for f in tags if getattr(obj, 'is_' + f.name)()]
    if len(hit) != 1:
        raise ReadError('is_<tag> true for %d tags' % len(hit))
    f = hit[0]
    if f.type is None:
        return UV(owner.ns, owner.name, f.name, None)
    return UV(owner.ns, owner.name, f.name, read(pkg, m, f.type, getattr(obj, 'get_' + f.name)()))


def public_view(m, t, av):
    """Normalise an AV to what the documented API shows: unset optional fields
    become their default / None; ints in float positions become floats."""
    if t is None or av is None:
        return None
    if t.kind == 'prim':
        if t.name in PRIM_FLOATS and isinstance(av, int) and not isinstance(av, bool):
            return float(av)
        return av
    if t.kind == 'list':
        return [public_view(m, t.args['item'], x) for x in av]
    if t.kind == 'map':
        return {k: public_view(m, t.args['value'], v) for k, v in av.items()}
    d = m.lookup(t.ns, t.name)
    if d.kind == 'alias':
        return public_view(m, d.type, av)
    if d.kind == 'struct':
        vd = m.lookup(av.ns, av.name)
        fields = {}
        for f in m.struct_all_fields(vd):
            if f.name in av.fields and av.fields[f.name] is not None:
                fields[f.name] = public_view(m, f.type, av.fields[f.name])
            elif f.default is not None:
                k, v = f.default
                if k == 'tag':
                    tgt = m.target(f.type)
                    fields[f.name] = UV(tgt.ns, tgt.name, v, None)
                else:
                    rt, _ = m.resolve_alias(f.type)
                    fields[f.name] = float(v) if rt.name in PRIM_FLOATS else v
            else:
                fields[f.name] = None
        return SV(vd.ns, vd.name, fields)
    f = [x for x in m.union_all_fields(m.lookup(av.ns, av.name)) if x.name == av.tag][0]
    return UV(av.ns, av.name, av.tag, public_view(m, f.type, av.value) if f.type is not None else None)


def av_eq(a, b):
    """Structural AV equality; returns None if equal else a description."""
    if isinstance(a, SV) or isinstance(b, SV):
        if not (isinstance(a, SV) and isinstance(b, SV)):
            return 'struct vs %r' % (type(b).__name__,)
        if (a.ns, a.name) != (b.ns, b.name):
            return 'class %s != %s' % (a.name, b.name)
        if set(a.fields) != set(b.fields):
            return 'fields %s != %s' % (sorted(a.fields), sorted(b.fields))
        for k in a.fields:
            r = av_eq(a.fields[k], b.fields[k])
            if r:
                return '%s.%s' % (k, r)
        return None
    if isinstance(a, UV) or isinstance(b, UV):
        if not (isinstance(a, UV) and isinstance(b, UV)):
            return 'union vs %r' % (type(b).__name__,)
        if a.tag != b.tag:
            return 'tag %s != %s' % (a.tag, b.tag)
        r = av_eq(a.value, b.value)
        return ('<%s>%s' % (a.tag, r)) if r else None
    if isinstance(a, list) and isinstance(b, list):
        if len(a) != len(b):
            return 'len %d != %d' % (len(a), len(b))
        for i, (x, y) in enumerate(zip(a, b)):
            r = av_eq(x, y)
            if r:
                return '[%d]%s' % (i, r)
        return None
    if isinstance(a, dict) and isinstance(b, dict):
        if set(a) != set(b):
            return 'keys differ'
        for k in a:
            r = av_eq(a[k], b[k])
            if r:
                return '{%s}%s' % (k, r)
        return None
    if isinstance(a, bool) != isinstance(b, bool):
        return 'bool vs non-bool %r %r' % (a, b)
    if type(a) is not type(b) and not (isinstance(a, (int, float)) and isinstance(b, (int, float))):
        return 'type %s != %s' % (type(a).__name__, type(b).__name__)
    if isinstance(a, float) and isinstance(b, float):
        import math
        if math.copysign(1, a) != math.copysign(1, b) and a == 0 == b:
            return None   # -0.0 vs 0.0: JSON does not promise the sign of zero
    return None if a == b else '%r != %r' % (a, b)
