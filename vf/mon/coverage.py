"""sys.monitoring observers: exception flows inside stone frames and
anchored functions reached.  Observation only; never alters behaviour."""
import os
import sys

from .. import common

TOOL = 3


class RaiseObserver:
    """Records (exception type, file:function) for every exception raised or
    re-raised inside a frame whose code lives under <repo>/stone/<subdirs>."""

    def __init__(self, subdirs=('stone/frontend', 'stone/ir')):
        self.roots = tuple(os.path.join(common.REPO, s) for s in subdirs)
        self.origins = {}      # (exc type, relfile, func) -> count  (first event per exception object)
        self.functions = set()
        self._last = None
        self.active = False

    def start(self, py_start=True):
        mon = sys.monitoring
        try:
            mon.use_tool_id(TOOL, 'vf')
        except ValueError:
            pass
        ev = mon.events.RAISE
        mon.register_callback(TOOL, mon.events.RAISE, self._on_raise)
        if py_start:
            ev |= mon.events.PY_START
            mon.register_callback(TOOL, mon.events.PY_START, self._on_start)
        mon.set_events(TOOL, ev)
        self.active = True

    def stop(self):
        mon = sys.monitoring
        mon.set_events(TOOL, 0)
        mon.register_callback(TOOL, mon.events.RAISE, None)
        mon.register_callback(TOOL, mon.events.PY_START, None)
        try:
            mon.free_tool_id(TOOL)
        except ValueError:
            pass
        self.active = False

    def _on_start(self, code, offset):
        fn = code.co_filename
        if fn.startswith(self.roots):
            self.functions.add((os.path.relpath(fn, common.REPO), code.co_qualname))
        return sys.monitoring.DISABLE

    def _on_raise(self, code, offset, exc):
        if exc is self._last:
            return
        fn = code.co_filename
        if not fn.startswith(self.roots):
            return
        self._last = exc
        try:
            k = (type(exc).__name__, os.path.relpath(fn, common.REPO), code.co_qualname)
        except RecursionError:
            # raised at the recursion limit: the observer must not turn the
            # program's own RecursionError into a crash of the monitor
            k = (type(exc).__name__, fn, code.co_qualname)
        self.origins[k] = self.origins.get(k, 0) + 1
