"""Runs the built-in backends on an Api (in-process, through stone.compiler.Compiler)."""
import copy
import hashlib
import importlib
import json
import os

from .. import common

TYPES_TPL = os.path.join(common.VERIF, 'harness', 'types.template')
CLIENT_TPL = os.path.join(common.VERIF, 'harness', 'client.template')

# Option shapes the Swift / Objective-C client backends require (those the
# Dropbox SDK generators use; DESIGN.md C17).
SWIFT_CLIENT_ARGS = json.dumps({
    'upload': [['upload', [['input', 'input', 'UploadBody', 'The body to upload.']]]],
    'download': [['download_file', [['overwrite', 'overwrite', 'Bool', 'Overwrite flag.'],
                                    ['destination', 'destination', 'URL', 'Where to put it.']]],
                 ['download_memory', []]],
})
SWIFT_STYLE = json.dumps({'rpc': 'RpcRequest', 'upload': 'UploadRequest',
                          'download_file': 'DownloadRequestFile',
                          'download_memory': 'DownloadRequestMemory'})
OBJC_CLIENT_ARGS = json.dumps({
    'upload': [['upload', ['Url', [['inputUrl', 'inputUrl', 'NSString *', 'The file to upload.']]]],
               ['upload', ['Data', [['inputData', 'inputData', 'NSData *', 'The data to upload.']]]]],
    'download': [['download_url', ['Url', [['overwrite', 'overwrite', 'BOOL', 'Overwrite flag.'],
                                           ['destination', 'destination', 'NSURL *', 'Where.']]]],
                 ['download_data', ['Data', []]]],
})
OBJC_STYLE = json.dumps({'rpc': 'DBRpcTask', 'upload': 'DBUploadTask',
                         'download_url': 'DBDownloadUrlTask', 'download_data': 'DBDownloadDataTask'})

CONFIGS = {
    'python_types': ('python_types', ['-p', 'pkg', '-r', 'client.{ns}_{route}']),
    'python_type_stubs': ('python_type_stubs', ['-p', 'pkg']),
    'python_client': ('python_client', ['-m', 'client_base', '-c', 'ClientBase', '-t', 'pkg']),
    'js_client': ('js_client', ['routes.js', '-c', 'Api']),
    'js_types': ('js_types', ['types.js']),
    'tsd_types_single': ('tsd_types', [TYPES_TPL, 'types.d.ts']),
    'tsd_types_per_ns': ('tsd_types', [TYPES_TPL, '--export-namespaces']),
    'tsd_client': ('tsd_client', [CLIENT_TPL, 'client.d.ts']),
    'swift_types': ('swift_types', ['-r', 'client.{ns}.{route}']),
    'swift_types_objc': ('swift_types', ['--objc', '-r', 'client.{ns}.{route}']),
    'swift_client': ('swift_client', ['-m', 'ApiClient', '-c', 'ApiClientBase', '-t', 'TransportClient',
                                      '-y', SWIFT_CLIENT_ARGS, '-z', SWIFT_STYLE]),
    'swift_client_objc': ('swift_client', ['-m', 'ApiClient', '-c', 'ApiClientBase', '-t',
                                           'TransportClient', '-y', SWIFT_CLIENT_ARGS, '-z', SWIFT_STYLE,
                                           '--objc']),
    'obj_c_types': ('obj_c_types', ['-r', 'client.{ns}.{route}']),
    'obj_c_client': ('obj_c_client', ['-m', 'ApiClient', '-c', 'ApiClientBase', '-t', 'TransportClient',
                                      '-y', OBJC_CLIENT_ARGS, '-z', OBJC_STYLE, '-w', 'user']),
}
ORDER = list(CONFIGS)


def run_backend(api, config, outdir, manifest=False, extra_args=None):
    """Run one configuration.  Returns the Compiler (for output_manifest())."""
    from stone.compiler import Compiler
    modname, args = CONFIGS[config] if isinstance(config, str) else config
    mod = importlib.import_module('stone.backends.' + modname)
    c = Compiler(api, mod, list(args) + list(extra_args or []), outdir, output_manifest=manifest)
    c.build()
    return c


def tree_digest(root):
    """relative path -> sha256 of every file under root."""
    out = {}
    for d, _, files in os.walk(root):
        for f in files:
            p = os.path.join(d, f)
            with open(p, 'rb') as fh:
                out[os.path.relpath(p, root)] = hashlib.sha256(fh.read()).hexdigest()
    return out


def read_tree(root):
    out = {}
    for d, _, files in os.walk(root):
        for f in files:
            p = os.path.join(d, f)
            with open(p, 'rb') as fh:
                out[os.path.relpath(p, root)] = fh.read()
    return out
