"""File-system monitor: audit-hook event log (attempts, transient writes) and
recursive snapshots (authoritative for what landed)."""
import hashlib
import os
import sys

_events = []
_installed = [False]
_enabled = [False]
WATCH = ('open', 'os.mkdir', 'os.rename', 'os.remove', 'os.rmdir', 'os.symlink', 'os.link',
         'shutil.copyfile', 'os.chmod', 'shutil.copytree', 'shutil.move', 'os.truncate')


def _hook(event, args):
    if not _enabled[0] or event not in WATCH:
        return
    try:
        if event == 'open':
            path, mode, flags = args[0], args[1], args[2]
            if not isinstance(path, (str, bytes)):
                return
            writing = (flags & (os.O_WRONLY | os.O_RDWR | os.O_CREAT | os.O_APPEND | os.O_TRUNC)) != 0 \
                if isinstance(flags, int) else False
            if not writing:
                return
            p = os.fsdecode(path)
        elif event in ('shutil.copyfile', 'os.rename', 'os.link', 'os.symlink', 'shutil.copytree', 'shutil.move'):
            p = os.fsdecode(args[1])      # destination
        else:
            p = os.fsdecode(args[0]) if args and isinstance(args[0], (str, bytes)) else repr(args)[:80]
        _events.append((event, os.path.abspath(p)))
    except Exception:
        pass


def install():
    if not _installed[0]:
        sys.addaudithook(_hook)
        _installed[0] = True


class Watch:
    """with Watch() as w: ...; w.events lists (event, absolute path) of write-like operations."""

    def __enter__(self):
        install()
        del _events[:]
        _enabled[0] = True
        return self

    def __exit__(self, *a):
        _enabled[0] = False
        self.events = list(_events)
        return False


def snapshot(root):
    out = {}
    for d, dirs, files in os.walk(root, followlinks=False):
        rel = os.path.relpath(d, root)
        if rel != '.':
            out[rel] = ('dir',)
        for f in files:
            p = os.path.join(d, f)
            r = os.path.relpath(p, root)
            if os.path.islink(p):
                out[r] = ('link', os.readlink(p))
            else:
                with open(p, 'rb') as fh:
                    data = fh.read()
                out[r] = ('file', len(data), hashlib.sha256(data).hexdigest())
    return out


def diff(before, after):
    """[(relative path, what)] for created / changed / removed entries."""
    out = []
    for k in after:
        if k not in before:
            out.append((k, 'created_' + after[k][0]))
        elif before[k] != after[k]:
            out.append((k, 'changed'))
    for k in before:
        if k not in after:
            out.append((k, 'removed'))
    return sorted(out)
