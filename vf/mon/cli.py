"""In-process driver of stone.cli.main (patched argv / stdio) and a subprocess variant."""
import contextlib
import io
import os
import subprocess
import sys

from .. import common

DUMP_BACKEND = os.path.join(common.VERIF, 'harness', 'dump.stoneg.py')


class CliResult:
    def __init__(self):
        self.api = None
        self.code = 0
        self.stdout = ''
        self.stderr = ''
        self.exc = None


def run_main(cli_args, backend_args=(), stdin_text=None):
    """Call stone.cli.main() in-process.  Returns CliResult (api as received by the dump backend)."""
    import stone.cli as cli
    res = CliResult()
    argv = ['stone_cli_inprocess'] + list(cli_args)
    if backend_args:
        argv += ['--'] + list(backend_args)
    old = sys.argv, sys.stdin, sys.stdout, sys.stderr
    out, err = io.StringIO(), io.StringIO()
    dump_mod = sys.modules.get('dump_stoneg_py')
    if dump_mod is not None:
        del dump_mod.RECEIVED[:]
    try:
        sys.argv = argv
        if stdin_text is not None:
            sys.stdin = io.TextIOWrapper(io.BytesIO(stdin_text.encode('utf-8')), encoding='utf-8')
        sys.stdout, sys.stderr = out, err
        try:
            res.api = cli.main()
        except SystemExit as e:
            res.code = e.code if isinstance(e.code, int) else (0 if e.code is None else 1)
        except Exception as e:   # noqa
            res.exc = e
            res.code = -1
    finally:
        sys.argv, sys.stdin, sys.stdout, sys.stderr = old
    res.stdout, res.stderr = out.getvalue(), err.getvalue()
    dump_mod = sys.modules.get('dump_stoneg_py')
    if dump_mod is not None and dump_mod.RECEIVED:
        res.received = dump_mod.RECEIVED[-1]
    else:
        res.received = None
    return res


def run_subprocess(cli_args, backend_args=(), stdin_text=None, cwd=None, timeout=120, env=None):
    argv = [common.PY, '-m', 'stone.cli'] + list(cli_args)
    if backend_args:
        argv += ['--'] + list(backend_args)
    return subprocess.run(argv, input=stdin_text.encode('utf-8') if stdin_text is not None else None,
                          capture_output=True, cwd=cwd, timeout=timeout, env=env or common.child_env())


def write_specs(files, d):
    os.makedirs(d, exist_ok=True)
    paths = []
    for p, t in files:
        fp = os.path.join(d, p)
        with open(fp, 'w', encoding='utf-8', newline='') as f:
            f.write(t)
        paths.append(fp)
    return paths
