"""Line reach of the code under observation, via sys.monitoring LINE events.

Every LINE callback returns DISABLE, so each (code object, line) costs one event: the overhead is a
first-execution cost only.  The runtime modules (stone_serializers / stone_validators / stone_base) are
copied into every generated package, so their lines are attributed to the repository file by base name.
Observation only; never alters behaviour.  Enabled in a worker when VERIF_LINECOV=1.
"""
import os
import sys

TOOL = 1        # sys.monitoring.COVERAGE_ID
RSRC = ('stone_serializers.py', 'stone_validators.py', 'stone_base.py')


class LineCov:
    def __init__(self, repo):
        self.repo = os.path.realpath(repo).rstrip(os.sep) + os.sep
        self.hits = set()
        self._names = {}
        self.active = False

    def _key(self, fn):
        k = self._names.get(fn)
        if k is None:
            real = fn
            if real.startswith(self.repo):
                k = real[len(self.repo):]
                if not k.startswith('stone' + os.sep):
                    k = ''
            else:
                b = os.path.basename(fn)
                k = 'stone/backends/python_rsrc/' + b if b in RSRC else ''
            self._names[fn] = k
        return k

    def start(self):
        mon = sys.monitoring
        try:
            mon.use_tool_id(TOOL, 'vf-linecov')
        except ValueError:
            return False

        def on_line(code, line):
            k = self._key(code.co_filename)
            if k:
                self.hits.add((k, line))
            return mon.DISABLE
        mon.register_callback(TOOL, mon.events.LINE, on_line)
        mon.set_events(TOOL, mon.events.LINE)
        self.active = True
        return True

    def stop(self):
        if not self.active:
            return
        mon = sys.monitoring
        mon.set_events(TOOL, 0)
        mon.register_callback(TOOL, mon.events.LINE, None)
        try:
            mon.free_tool_id(TOOL)
        except ValueError:
            pass
        self.active = False

    def dump(self):
        out = {}
        for f, ln in self.hits:
            out.setdefault(f, []).append(ln)
        return {f: sorted(v) for f, v in out.items()}


def executable_lines(path):
    """Line numbers that carry code in `path` (from the compiled code objects)."""
    src = open(path, encoding='utf-8').read()
    todo = [compile(src, path, 'exec')]
    lines = set()
    while todo:
        co = todo.pop()
        for _, _, ln in co.co_lines():
            if ln is not None and ln > 0:
                lines.add(ln)
        for c in co.co_consts:
            if hasattr(c, 'co_lines'):
                todo.append(c)
    return lines
