"""One shard of one check, in its own interpreter."""
import faulthandler
import importlib
import json
import os
import sys
import tempfile
import shutil
import time
import traceback

from . import common


def main():
    prop, tier, seed, idx, n, out = sys.argv[1:7]
    seed, idx, n = int(seed), int(idx), int(n)
    faulthandler.enable()
    common.use_repo()
    mod = importlib.import_module('vf.checks.' + prop.lower())
    res = common.Result()
    tmp = tempfile.mkdtemp(prefix='vf_%s_%d_' % (prop, idx), dir=os.environ.get('VERIF_TMP'))
    t0 = time.time()
    cov = None
    if os.environ.get('VERIF_LINECOV'):
        from .mon import linecov
        cov = linecov.LineCov(common.REPO)
        cov.start()
    try:
        mod.run_shard(tier, seed, idx, n, res, tmp)
    except Exception:
        res.inconclusive.append('worker %d crashed: %s' % (idx, traceback.format_exc()[-1500:]))
    finally:
        shutil.rmtree(tmp, ignore_errors=True)
    d = res.dump()
    if cov is not None:
        cov.stop()
        d['linecov'] = cov.dump()
    d['wall_s'] = time.time() - t0
    with open(out, 'w') as f:
        json.dump(common.jsonable(d), f)


if __name__ == '__main__':
    main()
