"""Re-run one recorded case: python -m vf.replay replays/<ID>/vNNN.json"""
import importlib
import json
import sys

from . import common


def main():
    d = json.load(open(sys.argv[1]))
    common.use_repo()
    mod = importlib.import_module('vf.checks.' + d['property'].lower())
    print('signature:', d['signature'])
    print('detail:', json.dumps(d['detail'])[:1000])
    if hasattr(mod, 'replay') and d.get('replay') is not None:
        mod.replay(d['replay'])


if __name__ == '__main__':
    main()
