"""Offline setup: make sure /verif/.deps holds icontract (from the local wheelhouse)."""
import os
import subprocess
import sys

HERE = os.path.dirname(os.path.dirname(os.path.abspath(__file__)))
DEPS = os.path.join(HERE, '.deps')
WHEELS = '/opt/veriftools/wheels'


def ensure_deps():
    if os.path.isdir(os.path.join(DEPS, 'icontract')):
        return True
    os.makedirs(DEPS, exist_ok=True)
    r = subprocess.run(
        [sys.executable, '-m', 'pip', 'install', '--quiet', '--no-index',
         '--find-links', WHEELS, '--target', DEPS, 'icontract'],
        stdout=subprocess.PIPE, stderr=subprocess.STDOUT, text=True)
    return r.returncode == 0 and os.path.isdir(os.path.join(DEPS, 'icontract'))


if __name__ == '__main__':
    ok = ensure_deps()
    print('deps', 'ok' if ok else 'MISSING (contracts will report inconclusive)')
    sys.exit(0)
