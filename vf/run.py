"""Driver: python -m vf.run <ID> <quick|thorough>

Shards the case range over worker subprocesses, merges what they observed,
applies known_findings.json, writes evidence/<ID>.json and exits
0 held / 1 violation / 2 inconclusive."""
import importlib
import json
import os
import shutil
import subprocess
import sys
import tempfile
import time

from . import common, setup


def load_known():
    p = os.path.join(common.VERIF, 'known_findings.json')
    if not os.path.exists(p):
        return []
    return json.load(open(p)).get('findings', [])


def sig_matches(entry_sig, sig):
    return all(sig.get(k) == v for k, v in entry_sig.items()) and \
        set(entry_sig) == set(sig)


def main(argv=None):
    argv = argv or sys.argv[1:]
    prop = argv[0].upper()
    tier = argv[1] if len(argv) > 1 else os.environ.get('VERIF_TIER', 'quick')
    if tier not in ('quick', 'thorough'):
        tier = 'quick'
    seed = common.base_seed()
    t0 = time.time()
    deps_ok = setup.ensure_deps()
    common.use_repo()
    mod = importlib.import_module('vf.checks.' + prop.lower())
    nworkers = int(os.environ.get('VERIF_WORKERS', min(16, os.cpu_count() or 4)))
    nworkers = min(nworkers, getattr(mod, 'MAX_WORKERS', nworkers))
    limit = mod.time_limit(tier) if hasattr(mod, 'time_limit') else (600 if tier == 'quick' else 7200)
    tmp = tempfile.mkdtemp(prefix='vfrun_%s_' % prop, dir=os.environ.get('VERIF_TMP'))
    procs = []
    env = common.child_env(VERIF_TMP=tmp, VERIF_TIER=tier, VERIF_T0=t0, VERIF_LIMIT=limit)
    if getattr(mod, 'HASHSEED_FREE', False):
        env.pop('PYTHONHASHSEED', None)
    for i in range(nworkers):
        out = os.path.join(tmp, 'shard_%d.json' % i)
        log = open(os.path.join(tmp, 'shard_%d.log' % i), 'w')
        p = subprocess.Popen([common.PY, '-m', 'vf.worker', prop, tier, str(seed), str(i),
                              str(nworkers), out], cwd=common.VERIF, env=env,
                             stdout=log, stderr=subprocess.STDOUT)
        procs.append((p, out, log))
    merged = common.Result()
    linecov = {}
    inconclusive = []
    deadline = t0 + limit
    shard_walls = []
    for i, (p, out, log) in enumerate(procs):
        try:
            p.wait(timeout=max(1, deadline - time.time()))
        except subprocess.TimeoutExpired:
            p.kill()
            inconclusive.append('shard %d hit the wall-clock watchdog (%ds)' % (i, limit))
        log.close()
        if os.path.exists(out):
            d = json.load(open(out))
            merged.evaluations += d['evaluations']
            merged.distinct.update(d['distinct'])
            for k, v in d['counters'].items():
                merged.count(k, v)
            for k, v in d['skipped'].items():
                merged.skip(k, v)
            merged.violations.extend(d['violations'])
            merged.count('_n_violations_total', d['n_violations'])
            for s in d['samples']:
                merged.sample(s, cap=6)
            inconclusive.extend(d['inconclusive'])
            shard_walls.append(d.get('wall_s', 0))
            for f, lns in d.get('linecov', {}).items():
                linecov.setdefault(f, set()).update(lns)
        elif not any('shard %d ' % i in x for x in inconclusive):
            tail = open(os.path.join(tmp, 'shard_%d.log' % i)).read()[-800:]
            inconclusive.append('shard %d produced no result: %s' % (i, tail))
    extra = {}
    if hasattr(mod, 'post'):
        extra = mod.post(merged, tier, seed) or {}
    if not deps_ok:
        inconclusive.append('icontract could not be installed from the wheelhouse')
    # a run that observed nothing is not a pass
    for req in getattr(mod, 'REQUIRED_COUNTERS', []):
        if merged.counters.get(req, 0) == 0:
            inconclusive.append('deciding monitor %r was never reached' % req)
    if merged.evaluations == 0:
        inconclusive.append('no oracle evaluation happened')

    known = [k for k in load_known() if k['property'] == prop and k.get('status') == 'open']
    seen_known = {}
    unlisted = []
    for v in merged.violations:
        for k in known:
            if sig_matches(k['signature'], v['signature']):
                seen_known.setdefault(k['id'], [k, 0])[1] += 1
                break
        else:
            unlisted.append(v)
    rdir = os.path.join(common.VERIF, 'replays', prop)
    lines = []
    seen_sigs = {}
    for v in unlisted:
        key = json.dumps(v['signature'], sort_keys=True)
        seen_sigs.setdefault(key, []).append(v)
    if seen_sigs:
        shutil.rmtree(rdir, ignore_errors=True)
    for n, (key, vs) in enumerate(sorted(seen_sigs.items())):
        path = os.path.join(rdir, 'v%03d.json' % n)
        common.write_json(path, {'property': prop, 'signature': vs[0]['signature'],
                                 'count': len(vs), 'detail': vs[0]['detail'],
                                 'replay': vs[0]['replay'], 'tier': tier, 'seed': seed})
        lines.append('VIOLATION property=%s replay=%s' % (prop, os.path.relpath(path, common.VERIF)))
        print('  signature=%s count=%d detail=%s' % (key, len(vs), str(vs[0]['detail'])[:400]))
    for kid, (k, cnt) in sorted(seen_known.items()):
        print('KNOWN-FINDING: property=%s %s [%s, seen %d times]' % (prop, k['mechanism'], kid, cnt))
    wall = time.time() - t0
    distinct_n = len(merged.distinct)
    cov = {
        'evaluations': merged.evaluations,
        'distinct_nontrivial': distinct_n,
        'rule': mod.RULE,
        'samples': merged.samples or ['(no sample recorded)'],
        'counters': dict(sorted(merged.counters.items())),
        'distinct_cells_sample': sorted(merged.distinct)[:60],
        'skipped_unspecified': merged.skipped,
        'known_findings_seen': {kid: cnt for kid, (k, cnt) in seen_known.items()},
        'inconclusive': inconclusive,
        'workers': nworkers,
        'shard_wall_s': [round(x, 1) for x in shard_walls],
        'repo': common.REPO,
    }
    cov.update(extra)
    ev = {
        'property_id': prop, 'tier': tier, 'seed': seed, 'level': getattr(mod, 'LEVEL', 'exploration'),
        'coverage': cov, 'assumptions': getattr(mod, 'ASSUMPTIONS', []),
        'wall_s': round(wall, 2), 'violations': len(unlisted),
    }
    if os.environ.get('VERIF_LINECOV') and os.environ.get('VERIF_LINECOV_OUT'):
        os.makedirs(os.environ['VERIF_LINECOV_OUT'], exist_ok=True)
        common.write_json(os.path.join(os.environ['VERIF_LINECOV_OUT'], '%s_%s_%d.json' % (prop, tier, seed)),
                          {f: sorted(v) for f, v in linecov.items()})
    if not os.environ.get('VERIF_NO_EVIDENCE'):
        common.write_json(os.path.join(common.VERIF, 'evidence', prop + '.json'), ev)
    shutil.rmtree(tmp, ignore_errors=True)
    print('%s %s seed=%d: evaluations=%d distinct=%d violations=%d known=%d wall=%.1fs' % (
        prop, tier, seed, merged.evaluations, distinct_n, len(unlisted), len(seen_known), wall))
    if lines:
        for ln in lines:
            print(ln)
        return 1
    if inconclusive:
        print('INCONCLUSIVE property=%s reason=%s' % (prop, '; '.join(inconclusive)[:1500]))
        return 2
    return 0


if __name__ == '__main__':
    sys.exit(main())
